"""Source builder with a source map: programs are written line by line from
parts; identifier parts carry the entity they declare or refer to, so the
position of every declaration and of every use is known by construction.

    s = Src("a.f90")
    s.add("  integer :: ", D("x", "mod::x"))
    s.add("  ", U("x", "mod::x"), " = 1")
"""
from __future__ import annotations

from dataclasses import dataclass


@dataclass(frozen=True)
class D:
    """A declaring occurrence of `name` for entity `ent`."""
    name: str
    ent: object


@dataclass(frozen=True)
class U:
    """A use of `name` that Fortran binds to entity `ent` (None: no expectation)."""
    name: str
    ent: object


@dataclass
class Occ:
    file: str
    line: int
    col: int
    end: int
    name: str
    ent: object
    decl: bool


class Src:
    def __init__(self, name):
        self.name = name
        self.lines = []
        self.occ = []

    def add(self, *parts):
        col = 0
        text = ""
        for p in parts:
            if isinstance(p, (D, U)):
                self.occ.append(Occ(self.name, len(self.lines), len(text), len(text) + len(p.name), p.name, p.ent, isinstance(p, D)))
                text += p.name
            else:
                text += str(p)
        self.lines.append(text)
        return len(self.lines) - 1

    @property
    def text(self):
        return "\n".join(self.lines) + "\n"


class Workspace:
    def __init__(self):
        self.files = {}

    def file(self, name) -> Src:
        if name not in self.files:
            self.files[name] = Src(name)
        return self.files[name]

    def occurrences(self):
        for f in self.files.values():
            yield from f.occ

    def decl_of(self, ent):
        ds = [o for o in self.occurrences() if o.decl and o.ent == ent]
        return ds[0] if len(ds) == 1 else None

    def write(self, root):
        import os

        for n, f in self.files.items():
            p = os.path.join(root, n)
            os.makedirs(os.path.dirname(p), exist_ok=True)
            with open(p, "w") as fh:
                fh.write(f.text)
