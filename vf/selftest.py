"""Unit tests of the reference models and the framework (run by setup_cmd)."""
from __future__ import annotations

import sys
import unittest

from . import core

core.install_repo_on_path()


def main():
    suite = unittest.defaultTestLoader.discover("tests", pattern="test_*.py")
    res = unittest.TextTestRunner(verbosity=0).run(suite)
    sys.exit(0 if res.wasSuccessful() else 1)


if __name__ == "__main__":
    main()
