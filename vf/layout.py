"""Canonical programs, tokenisation and re-layout with exact position maps
(C13, C14).

A canonical program is a list of statements, one per line, free form, no
continuation, no ';', comments only as whole lines.  A *layout* renders the same
statements differently (blank/comment lines, trailing comments, '&' continuation
at token boundaries, ';' joins, line endings, trailing blanks, letter case, fixed
form) and returns, next to the text, the position of every token, so any position
in the canonical rendering can be mapped forward exactly.
"""
from __future__ import annotations

import re
from dataclasses import dataclass, field

TOKEN = re.compile(
    r"""
      '(?:[^']|'')*' | "(?:[^"]|"")*"          # character literals
    | \.[A-Za-z]+\.                             # .and. .true. .eq.
    | \d+\.\d*(?:[edED][+-]?\d+)?(?:_\w+)? | \.\d+(?:[edED][+-]?\d+)?(?:_\w+)? | \d+(?:[edED][+-]?\d+)?(?:_\w+)?
    | [A-Za-z_]\w*
    | :: | => | == | /= | <= | >= | \*\* | // | \(/ | /\)
    | \S
    """,
    re.X,
)


@dataclass
class Stmt:
    text: str                      # canonical text (leading blanks are indentation)
    kind: str = "code"             # code | comment | blank | directive
    toks: list = field(default_factory=list)   # [(start, end, text)] in canonical text


def tokenize(text: str):
    return [(m.start(), m.end(), m.group(0)) for m in TOKEN.finditer(text)]


def parse_program(src: str):
    """Canonical source -> [Stmt]."""
    out = []
    for line in src.split("\n"):
        s = line.strip()
        if s == "":
            out.append(Stmt(line, "blank"))
        elif s.startswith("!"):
            out.append(Stmt(line, "comment"))
        elif s.startswith("#"):
            out.append(Stmt(line, "directive"))
        else:
            out.append(Stmt(line, "code", tokenize(line)))
    while out and out[-1].kind == "blank":
        out.pop()
    return out


@dataclass
class Rendered:
    text: str
    # tokpos[(stmt index, token index)] = (line, col) of the token start
    tokpos: dict
    stmt_line: dict       # stmt index -> line of its first token (or of the comment/blank line)
    stmt_last_line: dict  # stmt index -> line of its last token
    fixed: bool = False
    case: str = "asis"
    # compos[(stmt index, k)] = (line, col, name): the k-th name written into a generated trailing comment of that statement
    compos: dict = field(default_factory=dict)

    def fwd(self, canon: "Rendered", line: int, col: int):
        """Map a position of the canonical rendering to this rendering."""
        raise NotImplementedError


class Layout:
    """Description of a re-layout.  All per-statement maps are keyed by statement index."""

    def __init__(self, **kw):
        self.blank_above = kw.get("blank_above", {})        # s -> n blank lines
        self.comment_above = kw.get("comment_above", {})    # s -> n comment lines
        self.trailing_comment = kw.get("trailing_comment", set())
        self.split = kw.get("split", {})                    # s -> [(token index t (break before t), style)]
        self.join_next = kw.get("join_next", set())         # s joined with s+1 by ';'
        self.join_sep = kw.get("join_sep", "; ")            # "; " or ";" (the next statement starts right after it)
        self.eol = kw.get("eol", "\n")
        self.trailing_blanks = kw.get("trailing_blanks", 0)
        self.case = kw.get("case", "asis")                  # asis | upper | lower | alt
        self.fixed = kw.get("fixed", False)
        self.fixed_comment_char = kw.get("fixed_comment_char", "C")
        self.fixed_cont_char = kw.get("fixed_cont_char", "&")
        self.no_indent = kw.get("no_indent", False)
        # fixed form only: statements whose initial line carries a zero in column 6 (blank or zero = initial line)
        self.zero_col6 = kw.get("zero_col6", set())
        # fixed form only: the continued text starts in column 7, directly after the continuation mark
        self.fixed_cont_tight = kw.get("fixed_cont_tight", False)
        # trailing comments (of `trailing_comment`, of the split style "trail_comment") name the identifiers of their statement
        self.comment_names = kw.get("comment_names", False)

    def describe(self):
        d = {}
        for k in ("blank_above", "comment_above", "split"):
            if getattr(self, k):
                d[k] = {str(a): b for a, b in getattr(self, k).items()}
        for k in ("trailing_comment", "join_next", "zero_col6"):
            if getattr(self, k):
                d[k] = sorted(getattr(self, k))
        for k, dflt in (("eol", "\n"), ("trailing_blanks", 0), ("case", "asis"), ("fixed", False), ("no_indent", False), ("join_sep", "; "),
                        ("fixed_cont_tight", False), ("comment_names", False)):
            if getattr(self, k) != dflt:
                d[k] = getattr(self, k)
        if self.fixed:
            d["fixed_comment_char"], d["fixed_cont_char"] = self.fixed_comment_char, self.fixed_cont_char
        return d


def _case(tok: str, mode: str, k: int):
    if mode == "asis" or tok[:1] in "'\"":
        return tok
    if mode == "upper":
        return tok.upper()
    if mode == "lower":
        return tok.lower()
    # alternating per token
    return tok.upper() if k % 2 == 0 else tok.lower()


# "trail_comment" (an ordinary '!' comment after the non-final line; the names of the statement in it with `comment_names`)
# is not part of SPLIT_STYLES: free form has "amp_comment" for that, the fixed-form renderings of C14 ask for it by name
SPLIT_STYLES = ("plain", "lead_amp", "comment_between", "blank_between", "amp_comment", "spaces_between")


def render(stmts, lay: Layout = None) -> Rendered:
    lay = lay or Layout()
    lines = []
    tokpos = {}
    stmt_line, stmt_last = {}, {}
    pending = None  # (current line text) when joining with ';'
    i = 0
    ntok = 0
    compos = {}

    def trailing(cur_line, group, k0):
        """Text of a trailing comment after `cur_line` (a line of the statements `group`)."""
        if not lay.comment_names:
            return " ! trailing"
        names = []
        for s in group:
            for _, _, tok in reversed(stmts[s].toks):
                if re.match(r"[A-Za-z_]\w*$", tok) and tok.lower() not in (n.lower() for n in names):
                    names.append(tok)
        txt = " ! note"
        for k, nm in enumerate(names):
            if k and lay.fixed and len(cur_line) + len(txt) + 1 + len(nm) > 72:
                break
            compos[(group[0], k0 + k)] = (len(lines), len(cur_line) + len(txt) + 1, nm)
            txt += " " + nm + ","
        return txt.rstrip(",")

    # the text of a comment is arbitrary: it may look like a statement and contain ;
    ccomment = (lay.fixed_comment_char + " layout note; integer :: ghost_from_comment") if lay.fixed else "! layout note; integer :: ghost_from_comment"
    while i < len(stmts):
        st = stmts[i]
        for _ in range(lay.blank_above.get(i, 0)):
            lines.append("")
        for _ in range(lay.comment_above.get(i, 0)):
            lines.append(ccomment)
        if st.kind != "code":
            txt = st.text
            if lay.fixed and st.kind == "comment":
                txt = lay.fixed_comment_char + st.text.strip()[1:]
            stmt_line[i] = stmt_last[i] = len(lines)
            lines.append(txt)
            i += 1
            continue
        # ---- a code statement, possibly several joined by ';'
        group = [i]
        while group[-1] in lay.join_next and group[-1] + 1 < len(stmts) and stmts[group[-1] + 1].kind == "code":
            group.append(group[-1] + 1)
        indent = "" if lay.no_indent else re.match(r" *", st.text).group(0)
        label = ""
        if lay.fixed:
            cur = ("     0" if i in lay.zero_col6 else "      ") + indent
        else:
            cur = indent
        first_of_line = True
        for gi, s in enumerate(group):
            sst = stmts[s]
            if gi > 0:
                cur += lay.join_sep
            splits = dict(lay.split.get(s, []))
            prev_end = None
            for t, (a, b, tok) in enumerate(sst.toks):
                # statement label in fixed form goes to columns 1-5
                if lay.fixed and t == 0 and tok.isdigit() and gi == 0 and len(sst.toks) > 1:
                    cur = f"{tok:<5}" + cur[5:]
                    tokpos[(s, t)] = (len(lines), 0)
                    stmt_line.setdefault(s, len(lines))
                    prev_end = b
                    continue
                if t in splits and t > 0:
                    style = splits[t]
                    if lay.fixed:
                        lines.append(cur + (trailing(cur, group, 100 * t) if style == "trail_comment" else ""))
                        if style == "comment_between":
                            lines.append(ccomment)
                        elif style == "blank_between":
                            lines.append(lay.fixed_comment_char)
                        elif style == "spaces_between":
                            lines.append("   ")
                        cur = "     " + lay.fixed_cont_char + ("" if lay.fixed_cont_tight else indent + "  ")
                    else:
                        # amp_comment: an ordinary trailing comment (itself containing '&') after the marker
                        lines.append(cur + (" & ! cells in x & y" if style == "amp_comment" else
                                            " &" + trailing(cur + " &", group, 100 * t) if style == "trail_comment" else " &"))
                        if style == "comment_between":
                            lines.append(indent + "  ! continuation comment")
                        elif style == "blank_between":
                            lines.append("")
                        elif style == "spaces_between":
                            lines.append("   ")     # a line of blanks only is as empty as an empty one
                        cur = indent + "    " + ("& " if style == "lead_amp" else "")
                    gap = ""
                else:
                    gap = " " * (a - prev_end) if prev_end is not None else ""
                cur += gap
                tokpos[(s, t)] = (len(lines), len(cur))
                stmt_line.setdefault(s, len(lines))
                cur += _case(tok, lay.case, ntok)
                ntok += 1
                prev_end = b
            stmt_last[s] = len(lines)
        if group[-1] in lay.trailing_comment and (lay.comment_names or not lay.fixed):
            cur += trailing(cur, group, 0)
        lines.append(cur)
        i = group[-1] + 1
    if lay.trailing_blanks:
        lines = [ln + " " * lay.trailing_blanks if ln.strip() else ln for ln in lines]
    text = lay.eol.join(lines) + lay.eol
    return Rendered(text, tokpos, stmt_line, stmt_last, lay.fixed, lay.case, compos)


class PosMap:
    """Forward map canonical rendering -> other rendering."""

    def __init__(self, stmts, canon: Rendered, other: Rendered):
        self.stmts, self.a, self.b = stmts, canon, other
        self.line_to_stmt = {}
        for s, ln in canon.stmt_line.items():
            self.line_to_stmt.setdefault(ln, s)
        self.tok_at = {}
        for (s, t), (ln, col) in canon.tokpos.items():
            self.tok_at.setdefault(ln, []).append((col, col + (stmts[s].toks[t][1] - stmts[s].toks[t][0]), s, t))
        self.canon_lines = canon.text.split("\n")

    def pos(self, line, col):
        """(line, col) -> (line', col') or None when the position has no exact image."""
        s = self.line_to_stmt.get(line)
        if s is None:
            n = len(self.canon_lines)
            if line >= n - 1:  # past the end: same distance past the other end
                return None
            return None
        for (c0, c1, ss, t) in self.tok_at.get(line, []):
            if c0 <= col <= c1:
                l2, k2 = self.b.tokpos[(ss, t)]
                return (l2, k2 + (col - c0))
        if col == 0:
            return (self.b.stmt_line[s], 0)
        return None

    def line(self, line, end=False):
        s = self.line_to_stmt.get(line)
        if s is None:
            return None
        return self.b.stmt_last_line[s] if end else self.b.stmt_line[s]
