"""Validators for the LSP result shapes fortls produces, and range validity.

Each validator returns a list of problems (empty = valid).  `null` is a valid
result for every positional method.  Ranges are collected separately with
collect_locations() and checked against the target document by check_ranges().
"""
from __future__ import annotations


def _is_uint(x):
    return isinstance(x, int) and not isinstance(x, bool) and x >= 0


def v_position(p, where):
    if not isinstance(p, dict) or not isinstance(p.get("line"), int) or not isinstance(p.get("character"), int) \
            or isinstance(p.get("line"), bool) or isinstance(p.get("character"), bool):
        return [f"{where}: not a Position: {p!r}"]
    return []


def v_range(r, where):
    if not isinstance(r, dict) or "start" not in r or "end" not in r:
        return [f"{where}: not a Range: {r!r}"]
    return v_position(r["start"], where + ".start") + v_position(r["end"], where + ".end")


def v_location(loc, where):
    if not isinstance(loc, dict) or not isinstance(loc.get("uri"), str):
        return [f"{where}: not a Location: {loc!r}"]
    return v_range(loc.get("range"), where + ".range")


def v_markup(m, where):
    if isinstance(m, str):
        return []
    if isinstance(m, dict) and m.get("kind") in ("markdown", "plaintext") and isinstance(m.get("value"), str):
        return []
    return [f"{where}: not MarkupContent/string: {str(m)[:80]!r}"]


def v_hover(r):
    if r is None:
        return []
    if not isinstance(r, dict) or "contents" not in r:
        return [f"hover: no contents: {str(r)[:80]!r}"]
    out = v_markup(r["contents"], "hover.contents")
    if "range" in r:
        out += v_range(r["range"], "hover.range")
    return out


def v_locations(r, name="definition"):
    if r is None:
        return []
    if isinstance(r, dict):
        return v_location(r, name)
    if isinstance(r, list):
        out = []
        for i, x in enumerate(r):
            out += v_location(x, f"{name}[{i}]")
        return out
    return [f"{name}: neither Location, list nor null: {str(r)[:80]!r}"]


def v_references(r):
    if r is None:
        return []
    if not isinstance(r, list):
        return [f"references: not a list: {str(r)[:80]!r}"]
    return v_locations(r, "references")


def v_highlight(r):
    if r is None:
        return []
    if not isinstance(r, list):
        return [f"documentHighlight: not a list: {str(r)[:80]!r}"]
    out = []
    for i, x in enumerate(r):
        if not isinstance(x, dict):
            out.append(f"documentHighlight[{i}]: not an object")
            continue
        out += v_range(x.get("range"), f"documentHighlight[{i}].range")
        if "kind" in x and x["kind"] not in (1, 2, 3):
            out.append(f"documentHighlight[{i}].kind invalid")
    return out


def v_text_edit(e, where):
    if not isinstance(e, dict) or not isinstance(e.get("newText"), str):
        return [f"{where}: not a TextEdit: {str(e)[:80]!r}"]
    return v_range(e.get("range"), where + ".range")


def v_workspace_edit(r, where="rename"):
    if r is None:
        return []
    if not isinstance(r, dict):
        return [f"{where}: not a WorkspaceEdit: {str(r)[:80]!r}"]
    out = []
    ch = r.get("changes")
    if ch is None and "documentChanges" not in r:
        return [f"{where}: WorkspaceEdit without changes"]
    if ch is not None:
        if not isinstance(ch, dict):
            return [f"{where}.changes: not an object"]
        for uri, edits in ch.items():
            if not isinstance(uri, str) or not isinstance(edits, list):
                out.append(f"{where}.changes[{uri!r}]: not a list of edits")
                continue
            for i, e in enumerate(edits):
                out += v_text_edit(e, f"{where}.changes[{uri}][{i}]")
    return out


def v_signature(r):
    if r is None:
        return []
    if not isinstance(r, dict) or not isinstance(r.get("signatures"), list):
        return [f"signatureHelp: no signatures list: {str(r)[:80]!r}"]
    out = []
    for i, s in enumerate(r["signatures"]):
        if not isinstance(s, dict) or not isinstance(s.get("label"), str):
            out.append(f"signatureHelp.signatures[{i}]: no label")
            continue
        if "documentation" in s:
            out += v_markup(s["documentation"], f"signatures[{i}].documentation")
        for j, p in enumerate(s.get("parameters", []) or []):
            lab = p.get("label") if isinstance(p, dict) else None
            if not (isinstance(lab, str) or (isinstance(lab, list) and len(lab) == 2 and all(_is_uint(x) for x in lab))):
                out.append(f"signatures[{i}].parameters[{j}]: bad label {lab!r}")
            if isinstance(p, dict) and "documentation" in p:
                out += v_markup(p["documentation"], f"signatures[{i}].parameters[{j}].documentation")
    for k in ("activeSignature", "activeParameter"):
        if k in r and r[k] is not None and not _is_uint(r[k]):
            out.append(f"signatureHelp.{k} is not an unsigned integer: {r[k]!r}")
    return out


def v_completion(r):
    if r is None:
        return []
    items = r
    if isinstance(r, dict):
        if not isinstance(r.get("items"), list) or not isinstance(r.get("isIncomplete"), bool):
            return ["completion: not a CompletionList"]
        items = r["items"]
    if not isinstance(items, list):
        return [f"completion: not a list: {str(r)[:80]!r}"]
    out = []
    for i, c in enumerate(items):
        if not isinstance(c, dict) or not isinstance(c.get("label"), str) or c.get("label") == "":
            out.append(f"completion[{i}]: no label: {str(c)[:80]!r}")
            continue
        if "kind" in c and not (_is_uint(c["kind"]) and 1 <= c["kind"] <= 25):
            out.append(f"completion[{i}].kind invalid: {c['kind']!r}")
        if "insertText" in c and not isinstance(c["insertText"], str):
            out.append(f"completion[{i}].insertText not a string")
        if "insertTextFormat" in c and c["insertTextFormat"] not in (1, 2):
            out.append(f"completion[{i}].insertTextFormat invalid")
        if "detail" in c and not isinstance(c["detail"], str):
            out.append(f"completion[{i}].detail not a string")
        if "documentation" in c:
            out += v_markup(c["documentation"], f"completion[{i}].documentation")
    return out


def v_diagnostic(d, where):
    if not isinstance(d, dict) or not isinstance(d.get("message"), str):
        return [f"{where}: not a Diagnostic: {str(d)[:80]!r}"]
    out = v_range(d.get("range"), where + ".range")
    if "severity" in d and d["severity"] not in (1, 2, 3, 4):
        out.append(f"{where}.severity invalid")
    for i, ri in enumerate(d.get("relatedInformation", []) or []):
        if not isinstance(ri, dict) or not isinstance(ri.get("message"), str):
            out.append(f"{where}.relatedInformation[{i}] malformed")
        else:
            out += v_location(ri.get("location"), f"{where}.relatedInformation[{i}].location")
    return out


def v_code_actions(r):
    if r is None:
        return []
    if not isinstance(r, list):
        return [f"codeAction: not a list: {str(r)[:80]!r}"]
    out = []
    for i, a in enumerate(r):
        if not isinstance(a, dict) or not isinstance(a.get("title"), str):
            out.append(f"codeAction[{i}]: no title")
            continue
        if "edit" in a:
            out += v_workspace_edit(a["edit"], f"codeAction[{i}].edit")
        for j, d in enumerate(a.get("diagnostics", []) or []):
            out += v_diagnostic(d, f"codeAction[{i}].diagnostics[{j}]")
    return out


def v_symbols(r, name="symbols"):
    if r is None:
        return []
    if not isinstance(r, list):
        return [f"{name}: not a list"]
    out = []
    for i, s in enumerate(r):
        if not isinstance(s, dict) or not isinstance(s.get("name"), str) or not _is_uint(s.get("kind")) or not 1 <= s["kind"] <= 26:
            out.append(f"{name}[{i}]: malformed SymbolInformation {str(s)[:80]!r}")
            continue
        out += v_location(s.get("location"), f"{name}[{i}].location")
    return out


VALIDATORS = {
    "textDocument/hover": v_hover,
    "textDocument/definition": v_locations,
    "textDocument/implementation": lambda r: v_locations(r, "implementation"),
    "textDocument/references": v_references,
    "textDocument/documentHighlight": v_highlight,
    "textDocument/rename": v_workspace_edit,
    "textDocument/signatureHelp": v_signature,
    "textDocument/completion": v_completion,
    "textDocument/codeAction": v_code_actions,
    "textDocument/documentSymbol": v_symbols,
    "workspace/symbol": lambda r: v_symbols(r, "workspace/symbol"),
}


# ------------------------------------------------------------------ ranges
def collect_locations(obj, default_uri=None):
    """Yield (uri, range, where) for every range found in a result, attributing
    ranges without their own uri (TextEdits under `changes`, highlights,
    diagnostics) to the enclosing uri."""
    def walk(o, uri, where):
        if isinstance(o, dict):
            if "changes" in o and isinstance(o["changes"], dict):
                for u, edits in o["changes"].items():
                    walk(edits, u, where + ".changes")
            u = o.get("uri") if isinstance(o.get("uri"), str) else uri
            if isinstance(o.get("range"), dict):
                yield_list.append((u, o["range"], where))
            for k, v in o.items():
                if k in ("range", "changes"):
                    continue
                walk(v, u, where + "." + k)
        elif isinstance(o, list):
            for i, v in enumerate(o):
                walk(v, uri, f"{where}[{i}]")

    yield_list = []
    walk(obj, default_uri, "result")
    return yield_list


def check_range(rng, lines, where, end_line_may_be_count=False):
    """0 <= line < len(lines), 0 <= character <= len(line), start <= end."""
    out = []
    try:
        s, e = rng["start"], rng["end"]
        sl, sc, el, ec = s["line"], s["character"], e["line"], e["character"]
    except Exception:
        return [f"{where}: malformed range {rng!r}"]
    for nm, ln, ch in (("start", sl, sc), ("end", el, ec)):
        if not (isinstance(ln, int) and isinstance(ch, int)):
            out.append(f"{where}.{nm}: non-integer position")
            continue
        if not 0 <= ln < len(lines):
            out.append(f"{where}.{nm}.line {ln} outside document of {len(lines)} lines")
        elif not 0 <= ch <= len(lines[ln]):
            out.append(f"{where}.{nm}.character {ch} outside line {ln} of length {len(lines[ln])}")
    if not out and (sl, sc) > (el, ec):
        out.append(f"{where}: start {sl}:{sc} after end {el}:{ec}")
    return out
