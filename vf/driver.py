"""Drivers: how the real fortls code is executed by the checks.

* Server       the real LangServer + JSONRPC2Connection + ReadWriter in-process,
               built exactly as fortls.__init__.main builds them, stdout replaced
               by a BytesIO.  handle() message by message or run() over a scripted
               byte stream.
* frames       an independent LSP frame reader / writer (does not use
               fortls.jsonrpc) used to parse everything the server writes.
* FakePool     synchronous stand-in for multiprocessing.Pool (start-up becomes
               deterministic and fast); the real Pool is used where the property is
               about it.
* subprocess   `python -m fortls` over pipes: entry-point conformance.
"""
from __future__ import annotations

import io
import json
import logging
import os
import shutil
import subprocess
import sys
import tempfile

from . import core

core.install_repo_on_path()

import fortls.langserver as _ls  # noqa: E402
from fortls.interface import cli  # noqa: E402
from fortls.jsonrpc import JSONRPC2Connection, ReadWriter, path_to_uri  # noqa: E402

_REAL_POOL = _ls.Pool


# --------------------------------------------------------------------------
# independent framing
# --------------------------------------------------------------------------
class FrameError(Exception):
    pass


def parse_frames(data: bytes, strict=True):
    """Independent reader: split a byte string into LSP frames.

    Returns [(headers: dict[str, str], body_bytes, obj)], raises FrameError when
    the stream is not a sequence of complete, well-formed frames."""
    out = []
    pos = 0
    n = len(data)
    while pos < n:
        end = data.find(b"\r\n\r\n", pos)
        if end < 0:
            raise FrameError(f"no header terminator after byte {pos}: {data[pos:pos+80]!r}")
        head = data[pos:end].decode("ascii")
        headers = {}
        for line in head.split("\r\n"):
            if ":" not in line:
                raise FrameError(f"malformed header line {line!r}")
            k, v = line.split(":", 1)
            headers[k.strip().lower()] = v.strip()
        if "content-length" not in headers:
            raise FrameError(f"no Content-Length in {head!r}")
        try:
            length = int(headers["content-length"])
        except ValueError:
            raise FrameError(f"bad Content-Length {headers['content-length']!r}")
        body = data[end + 4 : end + 4 + length]
        if len(body) != length:
            raise FrameError(f"short body: header says {length}, {len(body)} bytes left")
        try:
            text = body.decode("utf-8")
            obj = json.loads(text)
        except Exception as e:  # noqa
            raise FrameError(f"body is not UTF-8 JSON ({e}): {body[:120]!r}")
        out.append((headers, body, obj))
        pos = end + 4 + length
    return out


def _dumps_iterative(obj, ascii_escape):
    """json.dumps without recursion (compact separators)."""
    out, stack = [], [obj]
    while stack:
        x = stack.pop()
        if isinstance(x, _Tok):
            out.append(x.s)
        elif isinstance(x, dict):
            items = list(x.items())
            stack.append(_Tok("}"))
            for i in range(len(items) - 1, -1, -1):
                k, v = items[i]
                stack.append(v)
                stack.append(_Tok(("," if i else "") + json.dumps(str(k), ensure_ascii=ascii_escape) + ":"))
            out.append("{")
        elif isinstance(x, (list, tuple)):
            stack.append(_Tok("]"))
            for i in range(len(x) - 1, -1, -1):
                stack.append(x[i])
                if i:
                    stack.append(_Tok(","))
            out.append("[")
        else:
            out.append(json.dumps(x, ensure_ascii=ascii_escape))
    return "".join(out)


class _Tok:
    def __init__(self, s):
        self.s = s


def frame(obj, *, ascii_escape=False, header_order="LT", extra_headers=()) -> bytes:
    """Independent writer.  header_order: 'L' Content-Length only, 'LT' length
    then type, 'TL' type then length."""
    try:
        body = json.dumps(obj, separators=(",", ":"), ensure_ascii=ascii_escape).encode("utf-8")
    except RecursionError:
        # a deeply nested (but well-formed) message: the harness itself must be able to write it
        body = _dumps_iterative(obj, ascii_escape).encode("utf-8")
    L = f"Content-Length: {len(body)}\r\n".encode()
    T = b"Content-Type: application/vscode-jsonrpc; charset=utf-8\r\n"
    # field names are case-insensitive and the blank after the colon is optional (HTTP header syntax, which LSP adopts)
    Ll = f"content-length: {len(body)}\r\n".encode()
    Ln = f"Content-Length:{len(body)}\r\n".encode()
    Lu = f"CONTENT-LENGTH:  {len(body)}\r\n".encode()
    head = {"L": L, "LT": L + T, "TL": T + L, "l": Ll, "n": Ln, "Tu": T + Lu}[header_order]
    for h in extra_headers:
        head += h.encode() + b"\r\n"
    return head + b"\r\n" + body


# --------------------------------------------------------------------------
# Pool
# --------------------------------------------------------------------------
def _scalar_globals():
    """Module-level bool/int/str/None switches of the package (the state a forked worker would keep to itself)."""
    import sys

    out = {}
    for mn, mod in list(sys.modules.items()):
        if mn == "fortls" or mn.startswith("fortls."):
            for name, val in list(vars(mod).items()):
                if not name.startswith("__") and (val is None or type(val) in (bool, int, str, float)):
                    out[(mod, name)] = val
    return out


class _FakeResult:
    def __init__(self, fn, args):
        import pickle

        self.fn, self.args = fn, args
        try:
            # like the real pool: arguments and result cross a process boundary by pickle, so the
            # task cannot mutate the parent's objects and results share nothing with each other
            args = pickle.loads(pickle.dumps(args))
            saved = _scalar_globals()
            try:
                self.val, self.exc = pickle.loads(pickle.dumps(fn(*args))), None
            finally:
                # ... and what a task assigns to module-level switches (set_keyword_ordering) stays in the worker
                for (mod, name), val in saved.items():
                    if getattr(mod, name, val) is not val:
                        setattr(mod, name, val)
        except Exception as e:  # what Pool would re-raise from get()
            self.val, self.exc = None, e

    def get(self, timeout=None):
        if self.exc is not None:
            raise self.exc
        return self.val


class FakePool:
    def __init__(self, processes=None, *a, **k):
        self.processes = processes

    def apply_async(self, fn, args=(), kwds=None):
        return _FakeResult(fn, args)

    def close(self):
        pass

    def join(self):
        pass


def use_fake_pool(on=True):
    _ls.Pool = FakePool if on else _REAL_POOL


# --------------------------------------------------------------------------
# global state that survives between in-process cases
# --------------------------------------------------------------------------
def clear_caches():
    """Clear every functools cache defined in the fortls package: cases executed in
    one long-lived worker must not influence each other through memoised state
    (a violation must reproduce from its own replay file)."""
    for name, mod in list(sys.modules.items()):
        if not name.startswith("fortls") or mod is None:
            continue
        for obj in list(vars(mod).values()):
            cc = getattr(obj, "cache_clear", None)
            if callable(cc):
                try:
                    cc()
                except Exception:
                    pass
            if isinstance(obj, type):
                for m in list(vars(obj).values()):
                    cc = getattr(m, "cache_clear", None) or getattr(getattr(m, "__func__", None), "cache_clear", None)
                    if callable(cc):
                        try:
                            cc()
                        except Exception:
                            pass


def reset_globals():
    clear_caches()
    import fortls.helper_functions as hf
    import fortls.parsers.internal.intrinsics as intr

    intr.lowercase_intrinsics = False
    if hasattr(hf, "sort_keywords"):
        hf.sort_keywords = True
    import fortls.constants as const

    if hasattr(const, "sort_keywords"):
        const.sort_keywords = True
    if sys.getrecursionlimit() != 1000:
        sys.setrecursionlimit(1000)
    # handlers added by _config_logger
    for h in list(const.log.handlers):
        const.log.removeHandler(h)
    for h in list(logging.root.handlers):
        logging.root.removeHandler(h)
        try:
            h.close()
        except Exception:
            pass
    logging.disable(logging.CRITICAL)


def parse_cli(argv=()):
    """Fresh argparse result (its mutable set() defaults are deep-copied so that
    serve_initialize cannot leak state into the next case)."""
    import copy

    ns = cli("fortls").parse_args(list(argv))
    return {k: copy.deepcopy(v) for k, v in vars(ns).items()}


# --------------------------------------------------------------------------
# In-process server
# --------------------------------------------------------------------------
class Server:
    def __init__(self, argv=(), *, fake_pool=True, stdin: io.BufferedIOBase | None = None):
        reset_globals()
        use_fake_pool(fake_pool)
        self.out = io.BytesIO()
        self.stdin = stdin if stdin is not None else io.BytesIO()
        self.conn = JSONRPC2Connection(ReadWriter(self.stdin, self.out))
        self.srv = _ls.LangServer(conn=self.conn, settings=parse_cli(argv))
        self._mark = 0
        self._id = 0
        # The order in which start-up meets the files follows the iteration order of a set of directory paths, i.e.
        # the hash of the (random) scratch path.  That dimension belongs to C15, which scripts it; everywhere else the
        # enumeration is pinned to the sorted order so that a run is a function of the case alone.
        real = self.srv._get_source_files
        self.srv._get_source_files = lambda: sorted(real())

    # -- raw ---------------------------------------------------------------
    def take_output(self):
        """Frames written since the last call, parsed by the independent reader."""
        data = self.out.getvalue()[self._mark :]
        self._mark += len(data)
        return [obj for (_, _, obj) in parse_frames(data)]

    def take_bytes(self):
        data = self.out.getvalue()[self._mark :]
        self._mark += len(data)
        return data

    def handle(self, msg: dict):
        """One message through LangServer.handle plus the post_messages flush that
        LangServer.run performs after each handled message."""
        self.srv.handle(msg)
        for m in self.srv.post_messages:
            self.srv.post_message(m[1], m[0])
        self.srv.post_messages = []
        return self.take_output()

    # -- convenience -------------------------------------------------------
    def request(self, method, params):
        """Returns (response_obj, other_messages)."""
        self._id += 1
        rid = self._id
        outs = self.handle({"jsonrpc": "2.0", "id": rid, "method": method, "params": params})
        resp = [o for o in outs if "id" in o and "method" not in o]
        other = [o for o in outs if not ("id" in o and "method" not in o)]
        if len(resp) != 1 or resp[0].get("id") != rid:
            raise core.HarnessError(f"request {method}: expected one response with id {rid}, got {outs!r}")
        return resp[0], other

    def result(self, method, params):
        """Result of a request; internal errors are returned as ('__error__', obj)."""
        resp, _ = self.request(method, params)
        if "error" in resp:
            return ("__error__", resp["error"].get("code"), str(resp["error"].get("message"))[:200])
        return resp.get("result")

    def notify(self, method, params):
        return self.handle({"jsonrpc": "2.0", "method": method, "params": params})

    def initialize(self, root, **extra):
        params = {"rootPath": root, **extra}
        return self.request("initialize", params)

    # positional helpers
    @staticmethod
    def tdpp(path, line, ch, **kw):
        return {"textDocument": {"uri": path_to_uri(path)}, "position": {"line": line, "character": ch}, **kw}

    def open(self, path, text=None):
        td = {"uri": path_to_uri(path)}
        if text is not None:
            td["text"] = text
        return self.notify("textDocument/didOpen", {"textDocument": td})

    def save(self, path):
        return self.notify("textDocument/didSave", {"textDocument": {"uri": path_to_uri(path)}})

    def close(self, path):
        return self.notify("textDocument/didClose", {"textDocument": {"uri": path_to_uri(path)}})

    def change(self, path, changes):
        return self.notify(
            "textDocument/didChange",
            {"textDocument": {"uri": path_to_uri(path)}, "contentChanges": changes},
        )


def server_on(root, argv=(), **kw) -> Server:
    s = Server(argv, **kw)
    resp, other = s.initialize(root)
    if "error" in resp:
        raise core.HarnessError(f"initialize failed on {root}: {resp['error'].get('message')}\n"
                                f"{(resp['error'].get('data') or {}).get('traceback')}")
    s.init_messages = other
    return s


# --------------------------------------------------------------------------
# scratch directories
# --------------------------------------------------------------------------
class Scratch:
    """A directory under /dev/shm that is removed on exit."""

    def __init__(self, tag="vf"):
        self.path = tempfile.mkdtemp(prefix=f"{tag}-", dir=core.SCRATCH_BASE)

    def write(self, rel, text, newline=""):
        p = os.path.join(self.path, rel)
        os.makedirs(os.path.dirname(p), exist_ok=True)
        if isinstance(text, bytes):
            with open(p, "wb") as f:
                f.write(text)
        else:
            with open(p, "w", encoding="utf-8", newline=newline) as f:
                f.write(text)
        return p

    def wipe(self):
        for n in os.listdir(self.path):
            p = os.path.join(self.path, n)
            if os.path.isdir(p) and not os.path.islink(p):
                shutil.rmtree(p, ignore_errors=True)
            else:
                os.unlink(p)

    def remove(self):
        shutil.rmtree(self.path, ignore_errors=True)

    def __enter__(self):
        return self

    def __exit__(self, *a):
        self.remove()


_worker_scratch = None


def worker_scratch(tag="vf") -> Scratch:
    """One scratch directory per worker process, removed at process exit."""
    global _worker_scratch
    if _worker_scratch is None or _worker_scratch[0] != os.getpid():
        import atexit

        s = Scratch(tag)
        _worker_scratch = (os.getpid(), s)
        pid = os.getpid()

        def _rm():
            if os.getpid() == pid:
                s.remove()

        atexit.register(_rm)
        # multiprocessing children exit through os._exit: also register there
        try:
            from multiprocessing import util

            util.Finalize(None, _rm, exitpriority=0)
        except Exception:
            pass
    return _worker_scratch[1]


# --------------------------------------------------------------------------
# subprocess driver
# --------------------------------------------------------------------------
def run_subprocess(stream: bytes, argv=(), cwd=None, env_extra=None, timeout=60):
    """Feed a byte stream to `python -m fortls` and return (stdout bytes, returncode)."""
    env = dict(os.environ)
    env["PYTHONPATH"] = core.REPO + os.pathsep + env.get("PYTHONPATH", "")
    env.setdefault("PYTHONHASHSEED", "0")
    if env_extra:
        env.update(env_extra)
    p = subprocess.run(
        [sys.executable, "-m", "fortls", *argv],
        input=stream,
        stdout=subprocess.PIPE,
        stderr=subprocess.DEVNULL,
        cwd=cwd or core.SCRATCH_BASE,
        env=env,
        timeout=timeout,
    )
    return p.stdout, p.returncode
