"""./run <ID> [--tier quick|thorough] [--replay PATH]

exit 0  property held on everything explored (known findings are printed)
exit 1  at least one VIOLATION line was printed
exit 2  the harness itself is broken (never a verdict)
"""
from __future__ import annotations

import argparse
import importlib
import json
import logging
import os
import sys
import traceback


def main(argv=None):
    ap = argparse.ArgumentParser()
    ap.add_argument("prop")
    ap.add_argument("--tier", default=os.environ.get("VERIF_TIER") or "quick",
                    choices=["quick", "thorough"])
    ap.add_argument("--replay", default=None)
    ap.add_argument("--only", default=None, help="comma-separated family names (debugging)")
    args = ap.parse_args(argv)
    if os.environ.get("VERIF_TIER") in ("quick", "thorough"):
        args.tier = os.environ["VERIF_TIER"]
    try:
        seed = int(os.environ.get("VERIF_SEED", "0"))
    except ValueError:
        seed = 0

    from . import core

    try:
        core.install_repo_on_path()
        logging.disable(logging.CRITICAL)
        mod = importlib.import_module(f"vf.checks.{args.prop.lower()}")
        if args.replay:
            with open(args.replay) as f:
                rec = json.load(f)
            res = mod.replay(rec)
            if res:
                print(f"VIOLATION property={args.prop} replay={args.replay}")
                print(json.dumps(res, indent=1, default=repr))
                return 1
            print(f"replay of {args.replay}: property holds on this case")
            return 0
        ctx = core.Context(args.prop, args.tier, seed, mod.LEVEL)
        ctx.only = set(args.only.split(",")) if args.only else None
        mod.main(ctx)
        return ctx.finish()
    except core.HarnessError as e:
        print(f"HARNESS-ERROR property={args.prop}: {e}", file=sys.stderr)
        return 2
    except Exception:
        traceback.print_exc()
        print(f"HARNESS-ERROR property={args.prop}: unexpected exception", file=sys.stderr)
        return 2


if __name__ == "__main__":
    sys.exit(main())
