"""Heap canonicaliser: state identity for the explicit-state checks.

Serialises everything reachable from the given roots — __dict__ in sorted
attribute order, sequences in order, dicts by sorted key, sets by sorted
canonical element, primitives by value — and represents object identity by the
index of first visit, so shared and cyclic structure (parent links, stale
pointers into replaced syntax trees) is captured exactly.  Two states are merged
only if their serialisations are identical; the serialisation contains all
state a handler can read, so merged states have identical futures (an over-fine
abstraction only costs time).
"""
from __future__ import annotations

import hashlib
import re
import types
from collections import deque

_PRIM = (type(None), bool, int, float, str, bytes, complex)
_PATTERN = type(re.compile(""))


def canon_digest(roots, subst=(), skip_attrs=frozenset(), max_objects=2_000_000, sort_dicts=False):
    """Return (hex digest, number of objects visited).

    subst       [(old, new)] string replacements applied to every str (paths).
    skip_attrs  attribute names not followed (streams, locks).
    """
    h = hashlib.blake2b(digest_size=16)
    seen: dict[int, int] = {}
    keep = []  # keep temporaries alive so ids are not reused during the walk
    count = 0

    def emit(*parts):
        for p in parts:
            h.update(p.encode("utf-8", "surrogatepass") if isinstance(p, str) else p)
            h.update(b"\x1f")

    def sub(s: str) -> str:
        for a, b in subst:
            if a in s:
                s = s.replace(a, b)
        return s

    def prim_key(o):
        if isinstance(o, str):
            return "s:" + sub(o)
        return type(o).__name__[0] + ":" + repr(o)

    stack = [("v", r) for r in reversed(list(roots))]
    while stack:
        tag, o = stack.pop()
        if tag == "e":
            emit(o)
            continue
        if isinstance(o, _PRIM):
            emit(prim_key(o))
            continue
        if isinstance(o, _PATTERN):
            emit("re", o.pattern if isinstance(o.pattern, str) else repr(o.pattern), str(o.flags))
            continue
        if isinstance(o, (types.FunctionType, types.BuiltinFunctionType, type, types.ModuleType)):
            emit("fn", getattr(o, "__module__", "") or "", getattr(o, "__qualname__", getattr(o, "__name__", "?")))
            continue
        if isinstance(o, types.MethodType):
            emit("meth", o.__func__.__qualname__)
            stack.append(("v", o.__self__))
            continue
        oid = id(o)
        idx = seen.get(oid)
        if idx is not None:
            emit("ref", str(idx))
            continue
        seen[oid] = count
        keep.append(o)
        count += 1
        if count > max_objects:
            raise RuntimeError("canon: object budget exceeded")
        if isinstance(o, (list, tuple, deque)):
            emit("[" + type(o).__name__, str(len(o)))
            stack.append(("e", "]"))
            for x in reversed(o):
                stack.append(("v", x))
        elif isinstance(o, dict):
            emit("{" + type(o).__name__, str(len(o)))
            stack.append(("e", "}"))
            # insertion order is observable by handlers (iteration), so it is
            # part of the state unless the caller asks for sorted dicts
            items = list(o.items())
            if sort_dicts:
                items.sort(key=lambda kv: prim_key(kv[0]) if isinstance(kv[0], _PRIM) else repr(kv[0]))
            for k, v in reversed(items):
                stack.append(("v", v))
                stack.append(("e", "k=" + (prim_key(k) if isinstance(k, _PRIM) else sub(repr(k)))))
        elif isinstance(o, (set, frozenset)):
            if all(isinstance(x, _PRIM) for x in o):
                emit("set", *sorted(prim_key(x) for x in o), "tes")
            else:
                # sets of objects: order by a shallow key (class + name attributes)
                def shallow(x):
                    return (type(x).__name__, sub(str(getattr(x, "name", ""))), sub(str(getattr(x, "FQSN", ""))))

                emit("oset", str(len(o)))
                stack.append(("e", "teso"))
                for x in sorted(o, key=shallow, reverse=True):
                    stack.append(("v", x))
        else:
            d = getattr(o, "__dict__", None)
            emit("<" + type(o).__module__ + "." + type(o).__qualname__)
            stack.append(("e", ">"))
            if d is not None:
                for k in sorted(d, reverse=True):
                    if k in skip_attrs:
                        continue
                    stack.append(("v", d[k]))
                    stack.append(("e", "a=" + k))
            slots = []
            for klass in type(o).__mro__:
                slots.extend(getattr(klass, "__slots__", ()) or ())
            for k in sorted(set(slots), reverse=True):
                if k in skip_attrs or k in ("__dict__", "__weakref__"):
                    continue
                if hasattr(o, k):
                    stack.append(("v", getattr(o, k)))
                    stack.append(("e", "a=" + k))
            if d is None and not slots:
                emit("opaque", sub(repr(o)) if type(o).__repr__ is not object.__repr__ else type(o).__name__)
    return h.hexdigest(), count


def server_state(srv, root=None, extra_roots=(), sort_dicts=False):
    """Canonical digest of a LangServer (everything but the byte streams)."""
    import sys

    import fortls.helper_functions as hf
    import fortls.parsers.internal.intrinsics as intr

    subst = [(root, "<ROOT>")] if root else []
    roots = [
        {k: v for k, v in srv.__dict__.items() if k != "conn"},
        list(srv.conn._msg_buffer),
        srv.conn._next_id,
        sys.getrecursionlimit(),
        intr.lowercase_intrinsics,
        hf.sort_keywords,
        *extra_roots,
    ]
    return canon_digest(roots, subst=subst, skip_attrs=frozenset({"conn"}), sort_dicts=sort_dicts)
