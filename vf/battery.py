"""Query battery: the common observation of the differential properties
(C10, C13, C14, C15).

For a server and a set of files it asks documentSymbol per file, workspace/symbol
for "", and for every identifier occurrence definition, hover, references,
completion (at the end of the identifier) and signatureHelp (at call sites) -- and, for callers that
add "implementation" to `requests` (C10), textDocument/implementation --, plus the
diagnostics of every file (obtained with didSave, which is idempotent on unchanged
files).  The result is normalised: paths relative to the root, lists that LSP
treats as unordered sorted.
"""
from __future__ import annotations

import json
import os
import re

from .driver import Server

IDENT = re.compile(r"[A-Za-z_]\w*")


def strip_comment(line: str) -> str:
    """Code part of a free-form line (a '!' outside quotes starts a comment)."""
    q = None
    for i, ch in enumerate(line):
        if q:
            if ch == q:
                q = None
        elif ch in "'\"":
            q = ch
        elif ch == "!":
            return line[:i]
    return line


def occurrences(text: str, fixed=False):
    """[(line, start, end, word)] of identifier occurrences in code (not in
    comments or character literals)."""
    out = []
    for ln, line in enumerate(re.split(r"\r\n|\n|\r", text)):
        if fixed and line[:1] in "cC*!dD":
            continue
        if line.lstrip().startswith("#"):
            continue
        code = strip_comment(line)
        # blank out character literals
        code = re.sub(r"'[^']*'|\"[^\"]*\"", lambda m: " " * len(m.group(0)), code)
        for m in IDENT.finditer(code):
            out.append((ln, m.start(), m.end(), m.group(0)))
    return out


class Normaliser:
    def __init__(self, root):
        from fortls.jsonrpc import path_to_uri

        self.root = root
        self.uri = path_to_uri(root)

    def __call__(self, o):
        if isinstance(o, str):
            return o.replace(self.uri, "<R>").replace(self.root, "<R>")
        if isinstance(o, list):
            return [self(x) for x in o]
        if isinstance(o, dict):
            return {k: self(v) for k, v in o.items()}
        return o


def _key(x):
    return json.dumps(x, sort_keys=True, default=str)


def run_battery(s: Server, root: str, files, *, fixed=None, requests=("definition", "hover", "references", "completion", "signatureHelp"),
                save_for_diagnostics=True, positions=None):
    """files: {relative path: text as the server should see it}.  Returns a
    JSON-able dict keyed by query."""
    norm = Normaliser(root)
    out = {}

    # Queries first, in the state the history left behind; the didSave notifications that fetch the diagnostics come
    # last (a save re-reads and re-links files: sent first it would repair stale state before anything is asked).
    def diagnostics_phase():
        for rel in sorted(files):
          path = os.path.join(root, rel)
          if save_for_diagnostics:
              msgs = s.save(path)
              diags = []
              for o in msgs:
                  if o.get("method") == "textDocument/publishDiagnostics":
                      for d in o["params"]["diagnostics"]:
                          diags.append(norm({"range": d["range"], "severity": d.get("severity"), "message": d["message"],
                                             "related": [(r["location"]["uri"], r["location"]["range"]["start"]["line"], r["message"])
                                                         for r in d.get("relatedInformation", [])]}))
                  elif o.get("method") == "window/showMessage":
                      diags.append(norm({"showMessage": o["params"]["message"]}))
                  elif "id" in o:
                      diags.append({"unexpected_response": norm(o)})
              out[f"diag:{rel}"] = sorted(diags, key=_key)

    for rel in sorted(files):
        path = os.path.join(root, rel)
        sym = s.result("textDocument/documentSymbol", {"textDocument": Server.tdpp(path, 0, 0)["textDocument"]})
        out[f"symbols:{rel}"] = norm(sym)
    ws = s.result("workspace/symbol", {"query": ""})
    out["workspace_symbols"] = sorted(norm(ws), key=_key) if isinstance(ws, list) else norm(ws)
    for rel in sorted(files):
        path = os.path.join(root, rel)
        text = files[rel]
        fx = fixed if fixed is not None else bool(re.search(r"\.(f|F|for|FOR|f77|F77)$", rel))
        occ = positions[rel] if positions and rel in positions else occurrences(text, fx)
        lines = re.split(r"\r\n|\n|\r", text)
        for (ln, a, b, word) in occ:
            mid = (a + b) // 2
            k = f"{rel}:{ln}:{a}:{word}"
            if "definition" in requests:
                out["def:" + k] = norm(s.result("textDocument/definition", Server.tdpp(path, ln, mid)))
            if "hover" in requests:
                out["hover:" + k] = norm(s.result("textDocument/hover", Server.tdpp(path, ln, mid)))
            if "implementation" in requests:  # opt-in: not part of the default battery
                out["impl:" + k] = norm(s.result("textDocument/implementation", Server.tdpp(path, ln, mid)))
            if "references" in requests:
                r = s.result("textDocument/references", Server.tdpp(path, ln, mid, context={"includeDeclaration": True}))
                out["refs:" + k] = sorted(norm(r), key=_key) if isinstance(r, list) else norm(r)
            if "completion" in requests:
                r = s.result("textDocument/completion", Server.tdpp(path, ln, b))
                if isinstance(r, list):
                    r = sorted({(c.get("label"), c.get("kind"), c.get("detail")) for c in r}, key=_key)
                    r = [list(x) for x in r]
                out["comp:" + k] = norm(r)
            if "signatureHelp" in requests and lines[ln][b:b + 1] == "(":
                out["sig:" + k] = norm(s.result("textDocument/signatureHelp", Server.tdpp(path, ln, b + 1)))
    diagnostics_phase()
    return out


def diff_batteries(a: dict, b: dict, limit=4):
    """Keys whose answers differ (first few), with both values."""
    out = []
    for k in sorted(set(a) | set(b)):
        if a.get(k, "<absent>") != b.get(k, "<absent>"):
            out.append((k, a.get(k, "<absent>"), b.get(k, "<absent>")))
            if len(out) >= limit:
                break
    return out


def kind_of_key(k: str) -> str:
    return k.split(":")[0]


# --------------------------------------------------------------------------
# The same battery as a static message script (for the real executable)
# --------------------------------------------------------------------------
def battery_script(root, files, first_id=100):
    """(messages, id -> key).  didSave notifications produce publishDiagnostics,
    which are collected by uri."""
    from fortls.jsonrpc import path_to_uri

    msgs, keys = [], {}
    rid = first_id

    def req(key, method, params):
        nonlocal rid
        rid += 1
        keys[rid] = key
        msgs.append({"jsonrpc": "2.0", "id": rid, "method": method, "params": params})

    for rel in sorted(files):
        path = os.path.join(root, rel)
        msgs.append({"jsonrpc": "2.0", "method": "textDocument/didSave", "params": {"textDocument": {"uri": path_to_uri(path)}}})
        req(f"symbols:{rel}", "textDocument/documentSymbol", {"textDocument": {"uri": path_to_uri(path)}})
    req("workspace_symbols", "workspace/symbol", {"query": ""})
    for rel in sorted(files):
        path = os.path.join(root, rel)
        text = files[rel]
        fx = bool(re.search(r"\.(f|F|for|FOR|f77|F77)$", rel))
        lines = re.split(r"\r\n|\n|\r", text)
        for (ln, a, b, word) in occurrences(text, fx):
            mid = (a + b) // 2
            k = f"{rel}:{ln}:{a}:{word}"
            req("def:" + k, "textDocument/definition", Server.tdpp(path, ln, mid))
            req("hover:" + k, "textDocument/hover", Server.tdpp(path, ln, mid))
            req("refs:" + k, "textDocument/references", Server.tdpp(path, ln, mid, context={"includeDeclaration": True}))
            req("comp:" + k, "textDocument/completion", Server.tdpp(path, ln, b))
            if lines[ln][b:b + 1] == "(":
                req("sig:" + k, "textDocument/signatureHelp", Server.tdpp(path, ln, b + 1))
    return msgs, keys


def collect_script(outputs, keys, root):
    """Normalised battery dict from the output objects of a scripted run."""
    norm = Normaliser(root)
    out = {}
    diags = {}
    for o in outputs:
        if "id" in o and "method" not in o and o["id"] in keys:
            k = keys[o["id"]]
            r = o.get("result") if "error" not in o else ["__error__", o["error"].get("code"), str(o["error"].get("message"))[:200]]
            kind = k.split(":")[0]
            if kind == "refs" and isinstance(r, list) and "error" not in o:
                r = sorted(norm(r), key=_key)
            elif kind == "comp" and isinstance(r, list) and "error" not in o:
                r = [list(x) for x in sorted({(c.get("label"), c.get("kind"), c.get("detail")) for c in r}, key=_key)]
            elif kind == "workspace_symbols" and isinstance(r, list) and "error" not in o:
                r = sorted(norm(r), key=_key)
            out[k] = norm(r)
        elif o.get("method") == "textDocument/publishDiagnostics":
            u = norm(o["params"]["uri"])
            diags[u] = sorted((norm({"range": d["range"], "severity": d.get("severity"), "message": d["message"],
                                     "related": [(r["location"]["uri"], r["location"]["range"]["start"]["line"], r["message"])
                                                 for r in d.get("relatedInformation", [])]}) for d in o["params"]["diagnostics"]), key=_key)
        elif o.get("method") == "window/showMessage":
            out.setdefault("messages", []).append(norm(o["params"]["message"]))
    for u, d in diags.items():
        out["diag:" + u.replace("<R>/", "")] = d
    return out


def script_in_process(s: Server, msgs):
    outs = []
    for m in msgs:
        outs += s.handle(m)
    return outs
