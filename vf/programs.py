"""Canonical program corpus (free form, one statement per line, no continuation,
comments only as whole lines).  Every program is valid Fortran 2008 (checked with
gfortran -fsyntax-only by tests/test_programs.py); together they contain every
statement kind the fortls parser distinguishes.
"""

PROGRAMS = {}

PROGRAMS["types"] = """\
module shapes_mod
  implicit none
  private
  public :: shape_t, circle_t, make_circle
  integer, parameter :: dp = kind(1.0d0)
  type, abstract :: shape_t
    real(dp) :: scale = 1.0_dp
  contains
    procedure(area_if), deferred :: area
    procedure :: describe => shape_describe
  end type shape_t
  type, extends(shape_t) :: circle_t
    real(dp) :: radius
  contains
    procedure :: area => circle_area
  end type circle_t
  abstract interface
    function area_if(self) result(a)
      import :: shape_t, dp
      class(shape_t), intent(in) :: self
      real(dp) :: a
    end function area_if
  end interface
contains
  subroutine shape_describe(self)
    class(shape_t), intent(in) :: self
    print *, self%scale
  end subroutine shape_describe
  function circle_area(self) result(a)
    class(circle_t), intent(in) :: self
    real(dp) :: a
    a = 3.14_dp * self%radius ** 2 * self%scale
  end function circle_area
  function make_circle(r) result(c)
    real(dp), intent(in) :: r
    type(circle_t) :: c
    c%radius = r
    c%scale = 1.0_dp
  end function make_circle
end module shapes_mod
program shapes_main
  use shapes_mod, only: circle_t, make_circle
  implicit none
  type(circle_t) :: ring
  ring = make_circle(2.0d0)
  print *, ring%area()
  call ring%describe()
end program shapes_main
"""

PROGRAMS["procs"] = """\
module procs_mod
  implicit none
  integer :: counter = 0
  interface swap
    module procedure swap_int, swap_real
  end interface swap
contains
  subroutine swap_int(a, b)
    integer, intent(inout) :: a, b
    integer :: tmp
    tmp = a
    a = b
    b = tmp
    counter = counter + 1
  end subroutine swap_int
  subroutine swap_real(a, b)
    real, intent(inout) :: a, b
    real :: tmp
    tmp = a
    a = b
    b = tmp
  end subroutine swap_real
  pure elemental integer function twice(n)
    integer, intent(in) :: n
    twice = 2 * n
  end function twice
  recursive function fact(n) result(res)
    integer, intent(in) :: n
    integer :: res
    if (n <= 1) then
      res = 1
    else
      res = n * fact(n - 1)
    end if
  end function fact
  subroutine with_optional(x, y)
    integer, intent(in) :: x
    integer, intent(out), optional :: y
    if (present(y)) y = twice(x)
  end subroutine with_optional
end module procs_mod
subroutine external_sub(k)
  use procs_mod
  implicit none
  integer, intent(inout) :: k
  integer :: other
  other = fact(k)
  call swap(k, other)
  call with_optional(k, y=other)
end subroutine external_sub
"""

PROGRAMS["constructs"] = """\
program constructs_main
  implicit none
  integer :: i, j, total
  integer, dimension(5) :: arr
  real :: val
  character(len=10) :: name
  logical :: flag
  total = 0
  arr = 0
  name = "it's ok"
  flag = .true.
  outer: do i = 1, 5
    do j = 1, i
      total = total + j
    end do
    if (total > 10 .and. flag) then
      exit outer
    else if (total == 3) then
      cycle outer
    end if
  end do outer
  select case (total)
  case (1)
    val = 1.0
  case (2:5)
    val = 2.5e0
  case default
    val = 0.0
  end select
  where (arr > 0)
    arr = 1
  elsewhere
    arr = 2
  end where
  block
    integer :: inner
    inner = total
    total = inner + 1
  end block
  associate (first => arr(1), second => total)
    first = second
  end associate
  do while (total < 20)
    total = total + 1
  end do
  print *, total, val, name
end program constructs_main
"""

PROGRAMS["usegraph"] = """\
module base_mod
  implicit none
  private
  integer, public :: base_public = 1
  integer :: base_hidden = 2
  public :: base_proc
contains
  subroutine base_proc(n)
    integer, intent(in) :: n
    base_hidden = n
  end subroutine base_proc
end module base_mod
module mid_mod
  use base_mod
  implicit none
  integer :: mid_var = 3
end module mid_mod
module top_mod
  use mid_mod, only: renamed => base_public, mid_var, base_proc
  implicit none
contains
  subroutine top_proc()
    renamed = mid_var
    call base_proc(renamed)
  end subroutine top_proc
end module top_mod
program usegraph_main
  use top_mod
  implicit none
  call top_proc()
  print *, renamed, mid_var
end program usegraph_main
"""

PROGRAMS["submod"] = """\
module par_mod
  implicit none
  type :: state_t
    integer :: count = 0
  end type state_t
  interface
    module subroutine bump(s, by)
      type(state_t), intent(inout) :: s
      integer, intent(in) :: by
    end subroutine bump
    module function peek(s) result(c)
      type(state_t), intent(in) :: s
      integer :: c
    end function peek
  end interface
end module par_mod
submodule (par_mod) par_impl
  implicit none
  integer :: calls = 0
contains
  module subroutine bump(s, by)
    type(state_t), intent(inout) :: s
    integer, intent(in) :: by
    s%count = s%count + by
    calls = calls + 1
  end subroutine bump
  module function peek(s) result(c)
    type(state_t), intent(in) :: s
    integer :: c
    c = s%count
  end function peek
end submodule par_impl
program submod_main
  use par_mod
  implicit none
  type(state_t) :: st
  call bump(st, 2)
  print *, peek(st)
end program submod_main
"""

PROGRAMS["misc"] = """\
module misc_mod
  use, intrinsic :: iso_fortran_env, only: int32, real64
  implicit none
  enum, bind(c)
    enumerator :: red = 1, green = 2
  end enum
  integer(int32), parameter :: limit = 2 * (3 + 1)
  real(real64), allocatable, dimension(:, :) :: grid
  character(len=*), parameter :: label = 'a "quoted" label'
  procedure(callback_if), pointer :: hook => null()
  abstract interface
    subroutine callback_if(code)
      integer, intent(in) :: code
    end subroutine callback_if
  end interface
  type :: node_t
    integer :: key = 0
    type(node_t), pointer :: next => null()
  contains
    procedure, nopass :: create => node_create
    generic :: make => create
  end type node_t
contains
  function node_create(key) result(n)
    integer, intent(in) :: key
    type(node_t) :: n
    n%key = key
  end function node_create
  subroutine run_hook(code)
    integer, intent(in) :: code
    type(node_t) :: head
    class(*), allocatable :: anything
    head = head%make(code)
    if (associated(hook)) call hook(head%key)
    allocate (anything, source=code)
    select type (item => anything)
    type is (integer)
      print *, item
    class default
      print *, limit
    end select
  end subroutine run_hook
end module misc_mod
"""

# character literals that contain the characters the line scanner keys on (; ! & and the other kind of quote)
PROGRAMS["literals"] = """\
module lit_mod
  implicit none
  character(len=*), parameter :: sep = ";", bang = "! not a comment", amp = "&"
  character(len=*), parameter :: quote = "it's"
  character(len=*), parameter :: saying = 'say "hi"; go'
  integer, parameter :: nlit = 3
  integer :: after_lit
contains
  subroutine show(msg)
    character(len=*), intent(in) :: msg
    integer :: k
    k = len(msg) + len(sep) + nlit
    print *, "a;b", msg, 'c!d', k
    if (msg == quote) k = len(saying)
    after_lit = k + len(bang) + len(amp)
  end subroutine show
end module lit_mod
"""


def names():
    return list(PROGRAMS)


# Programs used only by C14 (statement labels, labelled DO termination)
LABEL_PROGRAMS = {}
LABEL_PROGRAMS["labels"] = """\
subroutine label_demo(n, a)
  implicit none
  integer, intent(in) :: n
  real, intent(inout) :: a(n)
  integer :: i, j
  real :: acc
  acc = 0.0
  do 10 i = 1, n
    a(i) = 0.0
10 continue
  do 20 i = 1, n
    do 20 j = 1, n
      acc = acc + a(i) * j
20 continue
  if (n > 100) goto 30
  a(1) = acc
30 continue
  do 40 i = 1, n
40 a(i) = a(i) + 1.0
end subroutine label_demo
"""


# Free-form programs without a typed declaration in columns 1-5 (classification only)
NODECL_PROGRAMS = {
    "hello": "program hello\nprint *, \"hi\"\nend program hello\n",
    "calls": "subroutine work(a, b)\na = b\ncall helper(a)\ndo i = 1, 3\nb = b + i\nend do\nend subroutine work\n",
    "module_only": "module holder\ncontains\nsubroutine noop()\nend subroutine noop\nend module holder\n",
    "indented_deep": "program deep\n      x = 1\n      call sub(x)\n      end program deep\n",
}
