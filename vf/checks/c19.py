"""C19 — command line and configuration file are interchangeable; the file wins.

Enumeration of (option, channel state) for every documented option, of all
ordered pairs (option A on the command line, option B in the file), and of
faulty configuration files.  The observation of a run is the vector of effective
option attributes after the real `initialize` plus a behavioural vector
(capabilities, messages, indexed files, hover, completion, diagnostics), so an
option that is stored but not honoured is also seen.  Oracle `refopts`:
    obs(CLI v) == obs(file v);  obs(CLI v1, file v2) == obs(file v2);
    obs(CLI A, file B) == obs(CLI A) overlaid with obs(file B)
"""
from __future__ import annotations

import builtins
import contextlib
import io
import itertools
import json
import os
import re
import sys

from .. import core
from ..core import Acc, Violation
from ..driver import Server, worker_scratch

LEVEL = "fault_enumeration"

# name -> (kind, cli value v1, file value v2)   (defaults come from the CLI parser)
OPTIONS = {
    "nthreads": ("int", 2, 3),
    "notify_init": ("bool", True, False),
    "incremental_sync": ("bool", True, False),
    "recursion_limit": ("int", 1500, 2000),
    "sort_keywords": ("bool", True, False),
    "disable_autoupdate": ("bool", True, False),
    "debug_log": ("bool", True, False),
    "source_dirs": ("list", ["sub1"], ["sub2"]),
    "incl_suffixes": ("list", [".inc"], [".fyp"]),
    "excl_suffixes": ("list", ["_x.f90"], ["_y.f90"]),
    "excl_paths": ("list", ["excl1"], ["excl2"]),
    "autocomplete_no_prefix": ("bool", True, False),
    "autocomplete_no_snippets": ("bool", True, False),
    "autocomplete_name_only": ("bool", True, False),
    "lowercase_intrinsics": ("bool", True, False),
    "use_signature_help": ("bool", True, False),
    "hover_signature": ("bool", True, False),
    "hover_language": ("str", "lang1", "lang2"),
    "max_line_length": ("int", 40, 60),
    "max_comment_line_length": ("int", 30, 50),
    "disable_diagnostics": ("bool", True, False),
    "pp_suffixes": ("list", [".fh"], [".f90"]),
    "include_dirs": ("list", ["inc1"], ["inc2"]),
    "pp_defs": ("json", {"XDEF": "1"}, {"YDEF": "2"}),
    "symbol_skip_mem": ("bool", True, False),
    "enable_code_actions": ("bool", True, False),
}

# Other spellings of an option's value: "<option>#<form>" -> (option, value v1, value v2).  The configuration file reads a
# list given for pp_defs as a list of names defined empty; whatever a channel makes of a spelling, the other must too.
FORMS = {
    "pp_defs#list": ("pp_defs", ["XDEF"], ["YDEF"]),
    "pp_defs#list2": ("pp_defs", ["XDEF", "FROM_INC2"], ["YDEF", "XDEF"]),
    "pp_defs#number": ("pp_defs", 3, 4),
    "pp_defs#string": ("pp_defs", "XDEF", "YDEF"),
}
DEFAULT_NAMES = (".fortlsrc", ".fortls.json", ".fortls")

FILES = {
    "a.f90": ("module ma\n  implicit none\n  type :: tt\n    integer :: comp\n  end type tt\n"
              "  integer :: a_very_long_named_variable_number_one = 1 ! a comment that makes this line long enough\n"
              "  ! this is a comment line that is rather long on its own, longer than thirty characters\n"
              "contains\n  subroutine sa(arg1, arg2)\n    integer, intent(in) :: arg1\n    real, intent(out) :: arg2\n"
              "    arg2 = abs(real(arg1))\n    call sa(arg1, arg2)\n  end subroutine sa\nend module ma\n"),
    "pp.F90": ("program pp\n#ifdef XDEF\n  integer :: only_x\n#endif\n#ifdef YDEF\n  integer :: only_y\n#endif\n"
               "#include \"h1.h\"\n#ifdef FROM_INC1\n  integer :: from_inc1\n#endif\n#ifdef FROM_INC2\n  integer :: from_inc2\n#endif\nend program pp\n"),
    "k.f90": "module mk\n  implicit none\n  real, save, target, dimension(3), public :: unsorted_attrs\nend module mk\n",
    "low.f90x": "",
    "q.fh": "module mfh\n#ifdef XDEF\n  integer :: fh_x\n#endif\nend module mfh\n",
    "b_x.f90": "module mbx\nend module mbx\n", "b_y.f90": "module mby\nend module mby\n",
    "c.inc": "module minc\nend module minc\n", "d.fyp": "module mfyp\nend module mfyp\n",
    "sub1/s1.f90": "module ms1\nend module ms1\n", "sub2/s2.f90": "module ms2\nend module ms2\n",
    "excl1/e1.f90": "module me1\nend module me1\n", "excl2/e2.f90": "module me2\nend module me2\n",
    "inc1/h1.h": "#define FROM_INC1 1\n", "inc2/h1.h": "#define FROM_INC2 1\n",
}


def cli_args(opts: dict):
    argv = []
    for k, v in opts.items():
        kind = OPTIONS[k][0]
        if kind == "bool":
            if v:
                argv.append(f"--{k}")
        elif kind == "list":
            argv += [f"--{k}", *v]
        elif kind == "json":
            argv += [f"--{k}", json.dumps(v)]
        else:
            argv += [f"--{k}", str(v)]
    return argv


def build(sc, config_text=None, config_name=".fortlsrc"):
    sc.wipe()
    root = os.path.realpath(os.path.join(sc.path, "ws"))
    for rel, text in FILES.items():
        p = os.path.join(root, rel)
        os.makedirs(os.path.dirname(p), exist_ok=True)
        with open(p, "w") as f:
            f.write(text)
    if config_text is not None:
        mode = "wb" if isinstance(config_text, bytes) else "w"
        os.makedirs(os.path.dirname(os.path.join(root, config_name)), exist_ok=True)
        with open(os.path.join(root, config_name), mode) as f:
            f.write(config_text)
    return root


def observe(root, argv, fake_pool=True):
    """Run the real initialize and return (error|None, option vector, behaviour vector, messages)."""
    import fortls.helper_functions as hf
    import fortls.parsers.internal.intrinsics as intr

    s = Server(argv, fake_pool=fake_pool)
    snap = {}
    real_init = s.srv.workspace_init

    def workspace_init():
        # effective options as they are when indexing starts (parsing in-process
        # adds the directories/macros it meets to include_dirs / pp_defs)
        for k in OPTIONS:
            v = getattr(s.srv, k, "<missing>")
            snap[k] = set(v) if isinstance(v, set) else (dict(v) if isinstance(v, dict) else v)
        return real_init()

    s.srv.workspace_init = workspace_init
    cwd = os.getcwd()
    os.chdir(root)
    try:
        resp, other = s.initialize(root)
    finally:
        os.chdir(cwd)
    msgs = [o["params"]["message"] for o in other if o.get("method") == "window/showMessage"]
    if "error" in resp:
        return resp["error"].get("message", "?"), None, None, msgs, s
    srv = s.srv

    def norm(v):
        if v is None:
            return []
        if isinstance(v, (set, frozenset, list, tuple)):
            return sorted(str(x).replace(root, "<ROOT>") for x in v)
        if isinstance(v, dict):
            return {str(k): norm(x) if not isinstance(x, str) else x for k, x in sorted(v.items(), key=lambda kv: str(kv[0]))}
        return v

    opts = {k: norm(snap.get(k, getattr(srv, k, "<missing>"))) for k in OPTIONS}
    # pp_defs accumulates definitions found while parsing: keep the configured part observable separately
    opts["sync_type"] = srv.sync_type
    opts["src_regex"] = srv.FORTRAN_SRC_EXT_REGEX.pattern
    opts["recursion_limit_effective"] = sys.getrecursionlimit()
    opts["lowercase_effective"] = intr.lowercase_intrinsics
    opts["sort_effective"] = hf.sort_keywords
    beh = {"capabilities": resp["result"]["capabilities"],
           "messages": sorted(m for m in msgs),
           "workspace": sorted(os.path.relpath(p, root) for p in srv.workspace)}
    a = os.path.join(root, "a.f90")
    if a in srv.workspace:
        out = s.open(a)
        beh["diagnostics"] = [[(d["range"]["start"]["line"], d["message"]) for d in o["params"]["diagnostics"]]
                              for o in out if o.get("method") == "textDocument/publishDiagnostics"]
        beh["hover_sa"] = s.result("textDocument/hover", Server.tdpp(a, 12, 10))
        beh["hover_arg"] = s.result("textDocument/hover", Server.tdpp(a, 11, 6))
        comp = s.result("textDocument/completion", Server.tdpp(a, 11, 13))
        beh["completion"] = sorted((c.get("label"), c.get("insertText")) for c in comp)[:40] if isinstance(comp, list) else comp
        beh["signature"] = s.result("textDocument/signatureHelp", Server.tdpp(a, 12, 12))
        beh["symbols"] = sorted(x["name"] for x in s.result("textDocument/documentSymbol", {"textDocument": {"uri": Server.tdpp(a, 0, 0)["textDocument"]["uri"]}}))
        beh["code_actions"] = s.result("textDocument/codeAction", {**Server.tdpp(a, 0, 0), "range": {"start": {"line": 2, "character": 0}, "end": {"line": 4, "character": 0}}, "context": {"diagnostics": []}})
    # the same questions after the document was re-parsed in the server process (options that are applied while parsing)
    k = os.path.join(root, "k.f90")
    if k in srv.workspace:
        beh["hover_unsorted"] = s.result("textDocument/hover", Server.tdpp(k, 2, 46))
        s.open(k)
        s.change(k, [{"text": FILES["k.f90"] + "! edited\n"}])
        beh["hover_unsorted_after_change"] = s.result("textDocument/hover", Server.tdpp(k, 2, 46))
    if a in srv.workspace:
        out = s.change(a, [{"text": FILES["a.f90"] + "! edited\n"}])
        out += s.save(a)
        beh["diagnostics_after_change"] = [[(d["range"]["start"]["line"], d["message"]) for d in o["params"]["diagnostics"]]
                                           for o in out if o.get("method") == "textDocument/publishDiagnostics"]
        beh["hover_arg_after_change"] = s.result("textDocument/hover", Server.tdpp(a, 11, 6))
    p = os.path.join(root, "pp.F90")
    if p in srv.workspace:
        s.open(p)
        s.change(p, [{"text": FILES["pp.F90"] + "! edited\n"}])
        sy = s.result("textDocument/documentSymbol", {"textDocument": {"uri": Server.tdpp(p, 0, 0)["textDocument"]["uri"]}})
        beh["pp_symbols_after_change"] = sorted(x["name"] for x in sy) if isinstance(sy, list) else sy
    ws = s.result("workspace/symbol", {"query": "only_"})
    beh["pp_symbols"] = sorted(x["name"] for x in ws) if isinstance(ws, list) else ws
    ws = s.result("workspace/symbol", {"query": "f"})
    beh["f_symbols"] = sorted(x["name"] for x in ws) if isinstance(ws, list) else ws
    beh["debug_log_exists"] = os.path.exists(os.path.join(root, "fortls_debug.log"))
    return None, opts, beh, msgs, s


def diff(a: dict, b: dict):
    return sorted(k for k in set(a) | set(b) if a.get(k) != b.get(k))


def _obs(sc, cli: dict, filecfg: dict | None, config_name=".fortlsrc"):
    root = build(sc, None if filecfg is None else json.dumps(filecfg), config_name=config_name)
    argv = cli_args(cli)
    if config_name != ".fortlsrc":
        argv += ["--config", config_name]   # a configuration file that does not sit in the root directory
    try:
        with contextlib.redirect_stderr(io.StringIO()):
            err, opts, beh, msgs, _ = observe(root, argv)
    except SystemExit:
        return "cli_rejected", None, None   # the command-line parser refuses the value (usage error)
    return err, opts, beh


# ------------------------------------------------------------ single options
def single_case(name, acc: Acc):
    sc = worker_scratch("c19")
    label = name
    form = None
    if name in FORMS:
        name, v1, v2 = FORMS[label]
        kind = OPTIONS[name][0]
        form = label.split("#")[1]
    else:
        kind, v1, v2 = OPTIONS[name]
    ftag = {} if form is None else {"form": form}
    runs = {
        "default": _obs(sc, {}, None),
        "cli_v1": _obs(sc, {name: v1}, None),
        "file_v1": _obs(sc, {}, {name: v1}),
        "file_v2": _obs(sc, {}, {name: v2}),
        "cli_v1_file_v2": _obs(sc, {name: v1}, {name: v2}),
        "cli_v1_emptyfile": _obs(sc, {name: v1}, {}),
        "file_v1_elsewhere": _obs(sc, {}, {name: v1}, config_name="cfgdir/settings.json"),
    }
    # the file gives the option its "empty" value (an empty list / object, false): still the file's value
    neutral = {"list": [], "bool": False, "json": {}}.get(kind)
    if form is not None:
        neutral = [] if isinstance(v1, list) else None
    if neutral is not None:
        runs["file_neutral"] = _obs(sc, {}, {name: neutral})
        runs["cli_v1_file_neutral"] = _obs(sc, {name: v1}, {name: neutral})
    for run, (err, o, b) in runs.items():
        acc.case(nontrivial_key=(label, run), outcome=json.dumps([o, b], sort_keys=True, default=str))
    if any(err == "cli_rejected" for err, _, _ in runs.values()):
        # the command line refuses this spelling altogether: then the file must not give it an effect either
        (ef, of, bf), (ed, od, bd) = runs["file_v1"], runs["default"]
        if ef or ed:
            acc.violation(Violation("single", {"family": "single", "option": name, **ftag, "obs": "initialize_error", "relation": "file_v1"},
                                    {"option": label, "run": "file_v1"}, "result", ef or ed, what=f"{label} file_v1"))
            return
        d = diff(of, od) + [k for k in diff(bf, bd) if k != "messages"]
        if d:
            acc.violation(Violation(
                "single", {"family": "single", "option": name, **ftag, "relation": "cli_equals_file", "obs": "cli_rejects_file_accepts",
                           "fields": ",".join(d)}, {"option": label, "relation": "cli_equals_file", "v1": v1, "v2": v2},
                "no effect (the command line refuses the value)", {k: (of if k in of else bf).get(k) for k in d},
                what=f"{label}: refused on the command line, but in the file it changes {d}"))
        return
    for run, (err, o, b) in runs.items():
        if err:
            acc.violation(Violation("single", {"family": "single", "option": name, **ftag, "obs": "initialize_error", "relation": run},
                                    {"option": label, "run": run}, "result", err, what=f"{label} {run}"))
            return

    def same(rel, x, y):
        (_, ox, bx), (_, oy, by) = runs[x], runs[y]
        d1, d2 = diff(ox, oy), diff(bx, by)
        if d1 or d2:
            acc.violation(Violation(
                "single", {"family": "single", "option": name, **ftag, "relation": rel, "obs": "options_differ" if d1 else "behaviour_differs",
                           "fields": ",".join(d1 + d2)},
                {"option": label, "relation": rel, "v1": v1, "v2": v2},
                {k: (ox if k in ox else bx).get(k) for k in d1 + d2}, {k: (oy if k in oy else by).get(k) for k in d1 + d2},
                what=f"{label}: {x} vs {y} differ in {d1 + d2}"))

    same("cli_equals_file", "cli_v1", "file_v1")
    same("cli_equals_file_outside_root_dir", "cli_v1", "file_v1_elsewhere")
    same("file_wins", "cli_v1_file_v2", "file_v2")
    same("absent_in_file_keeps_cli", "cli_v1_emptyfile", "cli_v1")
    if neutral is not None:
        same("file_wins_with_empty_value", "cli_v1_file_neutral", "file_neutral")
    # non-vacuity: the option has an observable effect at all
    if not diff(runs["default"][1], runs["cli_v1"][1]) and not diff(runs["default"][2], runs["cli_v1"][2]):
        acc.count("no_observable_effect")
    if len(acc.samples) < 2:
        acc.sample({"option": label, "cli": cli_args({name: v1}), "file": {name: v2}})


# --------------------------------------------------------------------- pairs
def pair_case(job, acc: Acc):
    a, b = job
    sc = worker_scratch("c19")
    va, vb = OPTIONS[a][1], OPTIONS[b][2]
    e1, o_both, b_both = _obs(sc, {a: va}, {b: vb})
    e2, o_a, _ = _obs(sc, {a: va}, None)
    e3, o_b, _ = _obs(sc, {}, {b: vb})
    acc.case(nontrivial_key=(a, b), outcome=json.dumps(o_both, sort_keys=True, default=str))
    if e1 or e2 or e3:
        acc.violation(Violation("pairs", {"family": "pairs", "cli_option": a, "file_option": b, "obs": "initialize_error"},
                                {"cli": a, "file": b}, "result", e1 or e2 or e3))
        return
    # option a must keep its CLI value, option b must have the file value; nothing else may move
    keys_a = _fields_of(a)
    keys_b = _fields_of(b)
    bad = []
    for k in o_both:
        if k in keys_a and k in keys_b:
            continue  # both options feed this field (excl_paths prunes source_dirs): no overlay prediction
        if k in keys_b:
            want = o_b[k]
        elif k in keys_a:
            want = o_a[k]
        else:
            want = o_a[k] if o_a[k] == o_b[k] else None
            if want is None:
                continue
        if o_both[k] != want:
            bad.append((k, want, o_both[k]))
    for k, want, got in bad:
        acc.violation(Violation(
            "pairs", {"family": "pairs", "cli_option": a if k in keys_a else "*", "file_option": b, "obs": "option_changed", "field": k},
            {"cli": {a: va}, "file": {b: vb}}, want, got, what=f"cli {a} + file {b}: field {k} is {got!r}, expected {want!r}"))


DERIVED = {"incremental_sync": {"sync_type"}, "incl_suffixes": {"src_regex"}, "recursion_limit": {"recursion_limit_effective"},
           "lowercase_intrinsics": {"lowercase_effective"}, "sort_keywords": {"sort_effective"},
           "excl_paths": {"source_dirs"}, "source_dirs": set()}


def _fields_of(opt):
    return {opt} | DERIVED.get(opt, set())


# -------------------------------------------------------------------- faults
def nested(nest, depth):
    """Valid JSON, `depth` levels deep."""
    return "[" * depth + "]" * depth if nest == "list" else '{"a":' * depth + "1" + "}" * depth


# one option of every kind of value, for a value that is nested deeply
DEEP_VALUE_OPTIONS = ("max_line_length", "sort_keywords", "hover_language", "source_dirs", "pp_defs")
DEPTHS = (50, 5000)      # one the reader manages, one beyond any recursion limit in use


def fault_files():
    F = _fault_files()
    # the faulty file is the one found under each of the default names
    G = []
    for label, text, need in F + [("unreadable", "", True)]:
        if label.startswith("wrongtype:") or label.startswith("too_deep_value:"):
            continue
        for cfgname in DEFAULT_NAMES[1:]:
            G.append((f"{label}@{cfgname}", text, need))
    return F + G


def _fault_files():
    F = [
        ("empty", "", True), ("truncated", '{"nthreads": 2, "hover_language": "x', True), ("trailing_garbage", '{"nthreads": 2} xyz', True),
        ("invalid_utf8", b'{"hover_language": "\xff\xfe"}', True), ("top_list", "[]", True), ("top_number", "3", True),
        ("top_string", '"s"', True), ("top_null", "null", True), ("top_true", "true", True), ("not_json", "nthreads = 2", True),
    ]
    wrong = {"int": ["x", None, [1], {"a": 1}, True, 1.5], "bool": ["yes", None, [1], 3], "str": [3, None, ["a"], {"a": 1}],
             "list": ["x", 3, None, {"a": 1}, True, [1, 2]], "json": ["x", 3, None, [1, "a"], True]}
    for name, (kind, _, _) in OPTIONS.items():
        for i, val in enumerate(wrong[kind]):
            F.append((f"wrongtype:{name}:{i}", json.dumps({name: val}), False))
    # valid JSON that is nested more deeply than a recursive reader can follow: whether it is read (then a top-level list is
    # not a configuration, and a nested value has the wrong type) or declared unreadable, initialization completes
    for nest, depth in itertools.product(("list", "object"), DEPTHS):
        F.append((f"too_deep:{nest}:{depth}", nested(nest, depth), nest == "list"))
        if depth < 1000:
            continue    # a nested value the reader manages is simply a value of the wrong type: alphabet `wrongtype` above
        for name in DEEP_VALUE_OPTIONS:
            F.append((f"too_deep_value:{name}:{nest}:{depth}", '{"%s": %s}' % (name, nested(nest, depth)), False))
    return F


def _names(fname, message):
    """Does the message name the file `fname` (and not a longer name that starts with it)?"""
    return re.search(r"(?<![\w.])" + re.escape(fname) + r"(?!\.?\w)", message) is not None


def fault_case(job, acc: Acc):
    label, text, need_message = job
    sc = worker_scratch("c19")
    cli = {"hover_language": "lang1", "max_line_length": 40}
    base, _, cfgname = label.partition("@")
    cfgname = cfgname or ".fortlsrc"       # no --config: the first default name present is the file read
    special = base.split(":")[0]
    real_open = builtins.open
    argv = cli_args(cli)
    if special == "directory_in_place":
        root = build(sc)
        os.makedirs(os.path.join(root, ".fortlsrc"))
    elif special == "explicit_missing":
        root = build(sc)
        argv += ["--config", "does_not_exist.json"]
    elif special == "explicit_missing_default_present":
        # the named file is missing while a file with a default name exists (holding the command line's values, so
        # that the option comparison below holds whether or not it is read): the user still has to be told
        root = build(sc, json.dumps({"hover_language": "lang1", "max_line_length": 40}), config_name=".fortls")
        argv += ["--config", "does_not_exist.json"]
    elif special == "unreadable":
        root = build(sc, '{"hover_language": "lang2"}', config_name=cfgname)
        cfgp = os.path.join(root, cfgname)

        def deny(path, *a, **k):
            if isinstance(path, (str, bytes, os.PathLike)) and os.path.abspath(os.fspath(path)) == cfgp:
                raise PermissionError(13, "Permission denied", str(path))
            return real_open(path, *a, **k)
        builtins.open = deny
    else:
        root = build(sc, text, config_name=cfgname)
    try:
        err, opts, beh, msgs, s = observe(root, argv, fake_pool=not label.startswith("wrongtype:nthreads"))
    finally:
        builtins.open = real_open
    acc.case(nontrivial_key=label, outcome=(err is None, len(msgs)))
    case = {"fault": label, "config_text": text if isinstance(text, str) else repr(text)}
    tags = {"family": "faults", "fault": special if special != "wrongtype" else "wrongtype:" + label.split(":")[1],
            "config_name": cfgname}
    if special in ("too_deep", "too_deep_value"):
        tags.update(nest=base.split(":")[-2], depth=base.split(":")[-1])
        if special == "too_deep_value":
            tags["option"] = base.split(":")[1]
    if err is not None:
        acc.violation(Violation("faults", {**tags, "obs": "initialize_error"}, case, "initialize returns a result", err,
                                what=f"{label}: initialize answered an error: {err}"))
        return
    later = s.result("workspace/symbol", {"query": "ma"})
    if not isinstance(later, list):
        acc.violation(Violation("faults", {**tags, "obs": "later_request_failed"}, case, "a result", later, what=label))
    # a message that names a configuration file names the one that was read, not another default name
    if special not in ("directory_in_place", "explicit_missing", "explicit_missing_default_present"):
        others = [n for n in DEFAULT_NAMES if n != cfgname and any(_names(n, m) for m in msgs)]
        if others and not any(_names(cfgname, m) for m in msgs):
            acc.violation(Violation("faults", {**tags, "obs": "message_names_other_file"}, case, f"the file read is {cfgname}", msgs,
                                    what=f"{label}: the file read is {cfgname}, the message names {others}: {msgs}"))
    if need_message:
        if not msgs:
            acc.violation(Violation("faults", {**tags, "obs": "no_user_message"}, case, "a window/showMessage", msgs, what=label))
        sc2 = worker_scratch("c19")
        root2 = build(sc2)
        _, o_cli, _, _, _ = observe(root2, cli_args(cli))
        d = diff(opts, o_cli)
        if d:
            acc.violation(Violation("faults", {**tags, "obs": "options_not_cli_values", "fields": ",".join(d)}, case,
                                    {k: o_cli.get(k) for k in d}, {k: opts.get(k) for k in d}, what=f"{label}: {d}"))


def main(ctx):
    ctx.rule = ("single: for each of 26 options the runs {default, CLI v1, file v1, file v2, CLI v1 + file v2, CLI v1 + empty "
                "file}; pairs: all ordered pairs (A on the command line, B != A in the file); faults: 10 syntactically/"
                "structurally invalid files, a wrong-typed value of every JSON kind for every option, unreadable file "
                "(injected PermissionError), directory in place of the file, explicit --config path that does not exist; "
                "valid JSON nested 50 / 5000 levels deep (lists, objects) as the whole file and, 5000 deep, as the value of one "
                "option of each kind; every syntactic fault also with the file under the default names .fortls.json / .fortls (a message "
                "that names a configuration file names the one read). single also runs pp_defs spelled as a list of names, a "
                "number and a string on both channels (a spelling the command line refuses must have no effect in the file). "
                "Observation = effective option vector + behaviour vector after the real initialize.")
    ctx.assumptions = ["store_true options can only be switched on from the command line",
                       "fault-injected PermissionError on open() of the configuration path stands for an unreadable file "
                       "(the sandbox runs as root)"]
    only = getattr(ctx, "only", None)
    if not only or "single" in only:
        acc = core.pmap(single_case, list(OPTIONS) + list(FORMS), chunk=1, budget_s=120, label="C19/single")
        ctx.add_family("single", acc, value_forms=list(FORMS))
    if not only or "pairs" in only:
        pairs = [(a, b) for a in OPTIONS for b in OPTIONS if a != b]
        pacc = core.pmap(pair_case, pairs, chunk=2, budget_s=120, label="C19/pairs")
        ctx.add_family("pairs", pacc, ordered_pairs=len(pairs))
    if not only or "faults" in only:
        faults = fault_files() + [("unreadable", "", True), ("directory_in_place", "", False), ("explicit_missing", "", True),
                  ("explicit_missing_default_present", "", True)]
        facc = core.pmap(fault_case, faults, chunk=2, budget_s=120, label="C19/faults")
        ctx.add_family("faults", facc)


def replay(rec):
    c = rec["case"]
    acc = Acc()
    fam = rec["family"]
    if fam == "single":
        single_case(c["option"], acc)
    elif fam == "pairs":
        a = list(c["cli"])[0] if isinstance(c["cli"], dict) else c["cli"]
        b = list(c["file"])[0] if isinstance(c["file"], dict) else c["file"]
        pair_case((a, b), acc)
    else:
        lab = c["fault"]
        table = {f[0]: f for f in fault_files() + [("unreadable", "", True), ("directory_in_place", "", False), ("explicit_missing", "", True),
              ("explicit_missing_default_present", "", True)]}
        fault_case(table[lab], acc)
    return [v.to_json("C19") for v in acc.violations] or None
