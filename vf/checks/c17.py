"""C17 — indexing never executes or writes anything on behalf of file contents.

Enumeration of adversarial workspaces (payload x injection site x path) executed
on the real server under an interpreter audit hook (PEP 578) installed before the
server exists.  Monitor invariants over the audit trail of each run:
  * no `compile` event whose source text contains the payload's marker, no `exec`
    of a code object that mentions it  (nothing from a file reaches the interpreter)
  * no os.system / subprocess / exec* / spawn / socket.connect event at all
  * no file opened for writing, created, removed, renamed ... except
    <root>/fortls_debug.log
plus an independent file-system oracle: the hash of the scratch tree and of a
canary directory is unchanged (log file excepted).
"""
from __future__ import annotations

import ast as pyast
import hashlib
import json
import os
import re
import sys

from .. import core
from ..core import Acc, Violation
from ..driver import Scratch, Server, frame, run_subprocess, server_on, worker_scratch

LEVEL = "exploration"

# ------------------------------------------------------------- audit hook
_EVENTS = []
_ON = [False]
_HOOKED = [False]
_WATCH = {"compile", "exec", "os.system", "subprocess.Popen", "os.exec", "os.posix_spawn", "os.spawn", "socket.connect",
          "open", "os.remove", "os.rename", "os.mkdir", "os.rmdir", "os.chmod", "os.chown", "os.truncate", "os.symlink",
          "os.link", "shutil.rmtree", "shutil.move", "shutil.copyfile", "shutil.copytree", "os.utime", "pty.spawn",
          "ctypes.dlopen", "os.startfile", "os.putenv", "pickle.find_class", "marshal.loads", "import"}


def _hook(event, args):
    if not _ON[0] or event not in _WATCH:
        return
    if event == "compile":
        src = args[0]
        if isinstance(src, (bytes, bytearray)):
            src = bytes(src).decode("utf-8", "replace")
        _EVENTS.append(("compile", src if isinstance(src, str) else repr(src)[:200], str(args[1])))
    elif event == "exec":
        co = args[0]
        _EVENTS.append(("exec", getattr(co, "co_filename", "?"), tuple(getattr(co, "co_names", ())) + tuple(
            c for c in getattr(co, "co_consts", ()) if isinstance(c, str))))
    elif event == "open":
        _EVENTS.append(("open", str(args[0]), args[1], args[2]))
    elif event == "import":
        _EVENTS.append(("import", str(args[0])))
    else:
        _EVENTS.append((event,) + tuple(str(a)[:200] for a in args))


def install_hook():
    if not _HOOKED[0]:
        sys.addaudithook(_hook)
        _HOOKED[0] = True


WRITE_FLAGS = os.O_WRONLY | os.O_RDWR | os.O_CREAT | os.O_TRUNC | os.O_APPEND


def judge_events(events, marker, root):
    """Monitor: returns [(obs_class, detail)]."""
    bad = []
    log = os.path.join(root, "fortls_debug.log")
    for ev in events:
        kind = ev[0]
        if kind == "compile":
            if "MARK" in ev[1]:
                bad.append(("compile_of_file_text", ev[1][:160]))
            elif ev[2] == "<string>" and not ev[1].lstrip().startswith(("def __create_fn__", "from builtins import", "lambda _cls", "def ", "class ")):
                # a string compiled while indexing or answering: the package has no reason to (payloads without the
                # marker, e.g. a condition of digits and operators only, end up here)
                bad.append(("compile_of_dynamic_text", ev[1][:160]))
        elif kind == "exec":
            if any("MARK" in str(n) for n in ev[2]):
                bad.append(("exec_of_file_text", str(ev[2])[:160]))
        elif kind == "open":
            path, mode, flags = ev[1], ev[2], ev[3]
            writing = (isinstance(mode, str) and any(c in mode for c in "wax+")) or \
                      (isinstance(flags, int) and flags & WRITE_FLAGS)
            if writing and os.path.abspath(path) != log and not path.isdigit():
                bad.append(("open_for_writing", f"{path} mode={mode} flags={flags}"))
        elif kind == "import":
            if "MARK" in ev[1]:
                bad.append(("import_of_file_text", ev[1]))
        elif kind == "pickle.find_class":
            # the worker pool (and its synchronous stand-in) returns parsed files by pickle: classes of the
            # package itself and of plain containers are expected, anything else is not
            if ev[1].split(".")[0] not in ("fortls", "builtins", "collections", "re", "copyreg", "pathlib", "enum", "dataclasses", "_sre"):
                bad.append((kind, str(ev[1:])[:160]))
        elif kind in ("marshal.loads", "ctypes.dlopen", "os.putenv"):
            bad.append((kind, str(ev[1:])[:160]))
        else:
            if kind in ("os.remove", "os.chmod", "os.chown", "os.truncate", "os.utime") and len(ev) > 1 and os.path.abspath(ev[1]) == log:
                continue    # (a rename, link or symlink names a second path: never tolerated)
            bad.append((kind, str(ev[1:])[:160]))
    return bad


LOG_NEIGHBOURS = ("fortls_debug.old.log", "fortls_debug.log.1", "fortls_debug.log.bak", "fortls_debug.log~", "fortls_debug.txt")


def earlier_session(root, site):
    """The workspace was opened before with the debug log on: the log exists and is not empty; files of the user with
    similar names lie next to it (only the log itself may be touched)."""
    if not (site["config"] or {}).get("debug_log") and "--debug_log" not in site["argv"]:
        return
    if site.get("log_is_link"):
        # what stands at the log's path is a symbolic link to a file elsewhere: that file is not the debug log
        os.symlink(os.path.join(os.path.dirname(root), "canary", "keep.txt"), os.path.join(root, "fortls_debug.log"))
    else:
        with open(os.path.join(root, "fortls_debug.log"), "w") as f:
            f.write("DEBUG:fortls:log of an earlier session\n")
    for n in LOG_NEIGHBOURS:
        with open(os.path.join(root, n), "w") as f:
            f.write("a file of the user: " + n + "\n")


def tree_hash(path, skip=("fortls_debug.log",)):
    h = hashlib.sha256()
    for dp, dn, fn in sorted(os.walk(path)):
        dn.sort()
        h.update(dp.encode() + b"\0")
        for f in sorted(fn):
            if f in skip:
                continue
            p = os.path.join(dp, f)
            h.update(f.encode() + b"\0")
            try:
                with open(p, "rb") as fh:
                    h.update(fh.read())
                h.update(str(os.stat(p).st_mode).encode())
            except OSError as e:
                h.update(repr(e).encode())
    return h.hexdigest()


# ----------------------------------------------------------------- alphabet
def payloads(canary):
    long_arith = "MARK9 + " + " * ".join(["1"] * 400)
    return [
        ("os_system", f"__import__('os').system('touch {canary}/MARK1')"),
        ("open_w", f"open('{canary}/MARK2','w')"),
        ("subclasses", "(MARK3, ().__class__.__base__.__subclasses__())"),
        ("exec", "exec('MARK4=1')"),
        ("eval", "eval('MARK5')"),
        ("compile", "compile('MARK6','x','exec')"),
        ("lambda", "(lambda: MARK7)()"),
        ("walrus", "(MARK8 := 1)"),
        ("long_arith", long_arith),
        ("ternary", "1 if MARK10 else 2"),
        ("popen", f"__import__('subprocess').Popen(['touch','{canary}/MARK11'])"),
        ("unlink", "__import__('os').remove('MARK12_main.F90')"),
        ("plain_true", "MARK13 or 1"),
        # template syntax: text that a formatting call would *evaluate* (attribute access, indexing, conversion)
        ("fmt_attr", "{langid.__class__.__mro__} {0.__class__} MARK14"),
        ("fmt_index", "{langid[0]}{langid!r:>30} MARK15"),
        ("percent_dollar", "%(langid)s %s ${HOME} $HOME MARK16"),
        # replacement-template syntax of the regex engine (group references, escapes)
        ("re_template", "\\g<0> \\1 \\d MARK20"),
        # file names: text that, taken for a path to write to, would create or clobber a file
        ("path_abs", f"{canary}/MARK17.txt"),
        ("path_up", "../canary/keep.txt"),
        ("path_source", "main.F90"),
        # shell syntax: text that, handed to a shell for variable / tilde expansion, would run a command
        ("shell_subst", f"build$(touch {canary}/MARK21)"),
        ("shell_backtick", f"`touch {canary}/MARK22`$UNSET_VAR_C17"),
        ("shell_default", "${UNSET_VAR_C17:-`touch " + canary + "/MARK23`}/src"),
    ]


TEMPLATE_PAYLOADS = ("fmt_attr", "fmt_index", "percent_dollar", "re_template")


MAIN = "main.F90"


def sites(P):
    """name -> {files: {rel: text}, argv: [...], config: dict|None, doc: rel of the document to open}"""
    body = "program main\n  integer :: v1\n{dir}  v1 = 1\n  v1 = X\nend program main\n"

    def w(directives, extra_files=None, argv=(), config=None, doc=MAIN, files=None):
        f = {MAIN: body.format(dir=directives)}
        if files:
            f = files
        if extra_files:
            f.update(extra_files)
        return {"files": f, "argv": list(argv), "config": config, "doc": doc}

    S = {}
    S["if"] = w(f"#if {P}\n  integer :: a1\n#endif\n")
    S["elif"] = w(f"#if 0\n#elif {P}\n  integer :: a1\n#endif\n")
    S["define_if"] = w(f"#define X {P}\n#if X\n  integer :: a1\n#endif\n")
    S["define_elif"] = w(f"#define X {P}\n#if 0\n#elif X\n  integer :: a1\n#endif\n")
    S["define_if_cmp"] = w(f"#define X {P}\n#if X > 0\n  integer :: a1\n#endif\n")
    S["define_if_defined_and"] = w(f"#define X {P}\n#if defined(X) && X\n  integer :: a1\n#endif\n")
    S["header"] = w('#include "h.h"\n#if X\n  integer :: a1\n#endif\n', {"h.h": f"#define X {P}\n"})
    S["header_incdir"] = w('#include "g.h"\n#if X\n  integer :: a1\n#endif\n', {"inc/g.h": f"#define X {P}\n"},
                           config={"include_dirs": ["inc"]})
    S["ppdefs_config"] = w("#if X\n  integer :: a1\n#endif\n", config={"pp_defs": {"X": P}})
    S["ppdefs_cli"] = w("#if X\n  integer :: a1\n#endif\n", argv=["--pp_defs", json.dumps({"X": P})])
    S["multiline_define"] = w(f"#define X 1 + \\\n {P}\n#if X\n  integer :: a1\n#endif\n")
    S["function_macro_body"] = w(f"#define F(a) {P}\n#if F(1)\n  integer :: a1\n#endif\n  v1 = F(1)\n")
    S["function_macro_arg"] = w(f"#define F(a) a\n#if F({P})\n  integer :: a1\n#endif\n")
    S["lowercase_pp_suffix"] = w("", files={"main.f90": body.format(dir=f"#define X {P}\n#if X\n  integer :: a1\n#endif\n")},
                                 config={"pp_suffixes": [".f90"]}, doc="main.f90")
    S["fortran_include"] = w("  include 'inc.F90'\n", {"inc.F90": f"#define X {P}\n#if X\n  integer :: a2\n#endif\n"})
    S["string_and_comment"] = w(f"  character(len=*), parameter :: s = \"{P.replace(chr(34), chr(39))}\" ! {P}\n  !> {P}\n")
    S["ifdef_name"] = w(f"#ifdef {P}\n  integer :: a1\n#endif\n#ifndef {P}\n#endif\n#undef {P}\n")
    S["include_name"] = w(f'#include "{P}"\n#include {P}\n')
    S["defined_arg"] = w(f"#if defined({P})\n  integer :: a1\n#endif\n#if defined {P}\n#endif\n")
    S["config_strings"] = w("", config={"hover_language": P, "source_dirs": [P, "."], "excl_paths": [P], "incl_suffixes": [P],
                                        "excl_suffixes": [P], "include_dirs": [P], "pp_suffixes": [P, ".F90"],
                                        "pp_defs": {P: P, "Y": P}})
    S["config_scalars"] = w("#if Y\n#endif\n", config={"nthreads": P, "max_line_length": P, "recursion_limit": 1000,
                                                       "pp_defs": {"Y": "1"}, "debug_log": True})
    S["function_macro_noparams"] = w(f"#define X() {P}\n  v1 = X()\n")
    S["debug_log_symlink"] = dict(w(f"#define X {P}\n", config={"debug_log": True}), log_is_link=True)
    S["debug_log_symlink_cli"] = dict(w(f"#define X {P}\n", argv=["--debug_log"]), log_is_link=True)
    S["cli_paths"] = w("", argv=["--source_dirs", P, ".", "--include_dirs", P, "--excl_paths", P])
    S["config_file_names"] = w("", config={"debug_log": P, "hover_language": P, "config": P, "source_dirs": ["."]})
    # conditions that are nothing but numbers and operators (no identifier for an evaluator to stumble over)
    S["numeric_condition"] = w(f"#define BASE 424242\n#if (BASE + 1) * 2 > 848485\n  integer :: a1\n#endif\n#if 7 * 6 == 42\n  integer :: a2\n#endif\n"
                               f"#if 1 << 3 == 8\n#endif\n#define Q {P}\n")
    S["use_and_decl"] = w(f"  use {P}\n  type({P}) :: q\n  call {P}\n")
    return S


# --------------------------------------------------------------- execution
PATHS = ["startup", "open", "change", "save"]


def run_case(job, acc: Acc):
    pname, sname, path_kind = job
    install_hook()
    sc = worker_scratch("c17")
    sc.wipe()
    root = os.path.join(sc.path, "root")
    canary = os.path.join(sc.path, "canary")
    os.makedirs(root)
    os.makedirs(canary)
    with open(os.path.join(canary, "keep.txt"), "w") as f:
        f.write("canary\n")
    P = dict(payloads(canary))[pname]
    site = sites(P)[sname]
    docrel = site["doc"]
    final_text = site["files"][docrel]
    files = dict(site["files"])
    if path_kind in ("change", "save"):
        # the payload arrives through the editor buffer, the file on disk is harmless at start-up
        files[docrel] = "program main\nend program main\n"
    for rel, text in files.items():
        p = os.path.join(root, rel)
        os.makedirs(os.path.dirname(p), exist_ok=True)
        with open(p, "w") as f:
            f.write(text)
    if site["config"] is not None:
        with open(os.path.join(root, ".fortlsrc"), "w") as f:
            json.dump(site["config"], f)
    doc = os.path.join(root, docrel)
    earlier_session(root, site)
    before = (tree_hash(root), tree_hash(canary))
    cwd = os.getcwd()
    os.chdir(root)
    del _EVENTS[:]
    exc = None
    shown = []
    indexed = {}
    _ON[0] = True
    try:
        s = Server(site["argv"])
        s.initialize(root)
        if path_kind != "startup":
            s.open(doc)
        if path_kind in ("change", "save"):
            s.change(doc, [{"text": final_text}])
        if path_kind == "save":
            _ON[0] = False
            with open(doc, "w") as f:  # the editor saves the buffer
                f.write(final_text)
            before = (tree_hash(root), before[1])
            _ON[0] = True
            s.save(doc)
        nlines = final_text.count("\n") + 1
        for ln in range(nlines):
            for method in ("textDocument/hover", "textDocument/definition", "textDocument/completion",
                           "textDocument/references", "textDocument/signatureHelp"):
                line = final_text.split("\n")[ln] if ln < nlines else ""
                for col in sorted({0, min(9, len(line)), len(line)} | {m.start() + 1 for m in list(re.finditer(r"[A-Za-z_]\w*", line))[:8]}):
                    extra = {"context": {"includeDeclaration": True}} if method.endswith("references") else {}
                    res = s.result(method, Server.tdpp(doc, ln, col, **extra))
                    if pname in TEMPLATE_PAYLOADS and method.split("/")[1] in ("hover", "completion", "signatureHelp"):
                        shown.append((method, ln, col, res))
        s.result("textDocument/documentSymbol", {"textDocument": {"uri": Server.tdpp(doc, 0, 0)["textDocument"]["uri"]}})
        s.result("workspace/symbol", {"query": ""})
        indexed = {os.path.basename(k): v for k, v in s.srv.workspace.items()}     # (exit empties the workspace)
        s.notify("exit", {})
    except Exception as e:  # noqa
        exc = repr(e)
    finally:
        _ON[0] = False
        os.chdir(cwd)
    events = list(_EVENTS)
    del _EVENTS[:]
    after = (tree_hash(root), tree_hash(canary))
    bad = judge_events(events, "MARK", root)
    if after[0] != before[0]:
        bad.append(("workspace_tree_changed", ""))
    if after[1] != before[1]:
        bad.append(("canary_changed", str(os.listdir(canary))))
    # what is shown to the user restates the source text: template syntax in it comes back verbatim, unevaluated
    squeeze = lambda t: re.sub(r"\s+", "", t)  # noqa: E731
    for method, ln, col, res in shown:
        if isinstance(res, tuple) and res and res[0] == "__error__":
            bad.append(("error_on_template_text", f"{method} {ln}:{col} {res[2][:80]}"))
            continue
        txt = json.dumps(res)
        for m in re.finditer(r"#define X(?:\(\))? (.*?)(?:\\n|```)", txt):
            acc.count("macro_bodies_shown")
            if squeeze(json.dumps(P)[1:-1]) not in squeeze(m.group(0)):
                bad.append(("template_text_not_verbatim", f"{method} {ln}:{col} shows {m.group(0)[:120]!r}"))
        for m in re.finditer(r":: s = (.*?)(?:\\n|```)", txt):
            acc.count("parameter_values_shown")
            if squeeze(json.dumps(P.replace(chr(34), chr(39)))[1:-1]) not in squeeze(m.group(0)):
                bad.append(("template_text_not_verbatim", f"{method} {ln}:{col} shows {m.group(0)[:120]!r}"))
    if pname in TEMPLATE_PAYLOADS and exc is None:
        # the expansion of a macro copies its body: nothing in it is a template for the substitution machinery
        fobj = indexed.get(os.path.basename(doc))
        if sname not in ("function_macro_noparams", "function_macro_body", "define_if"):
            pass
        elif fobj is None or fobj.ast is None:
            bad.append(("document_not_indexed", "the document with the payload dropped out of the index"))
        elif sname == "function_macro_noparams":
            pp = "\n".join(getattr(fobj, "contents_pp", []) or [])
            use = [ln for ln in pp.split("\n") if ln.lstrip().startswith("v1 =") and "1" != ln.strip()[-1:]]
            acc.count("expansions_seen", len(use))
            if sname == "function_macro_noparams" and not any(squeeze(P) in squeeze(ln) for ln in use):
                bad.append(("expansion_not_verbatim", f"v1 = X() expands to {use[:2]!r}"))
    acc.case(nontrivial_key=(pname, sname, path_kind), outcome=(len(events) > 0, exc is None))
    acc.count("audit_events_seen", len(events))
    if exc and "HarnessError" in exc:
        raise core.HarnessError(exc)
    seen = set()
    for obs, detail in bad:
        if obs in seen:
            continue
        seen.add(obs)
        acc.violation(Violation(
            "audit", {"family": "audit", "obs": obs, "site": sname, "path": path_kind},
            {"payload": pname, "site": sname, "path": path_kind}, "no such event", detail,
            what=f"payload={pname} site={sname} path={path_kind}"))
    if len(acc.samples) < 2:
        acc.sample({"payload": P[:80], "site": sname, "path": path_kind, "document": final_text[:200]})


def subprocess_case(job, acc: Acc):
    """The same workspaces through the real executable (real worker pool): only the
    file-system oracle applies (audit hooks do not cross process boundaries)."""
    pname, sname = job
    sc = worker_scratch("c17")
    sc.wipe()
    root = os.path.join(sc.path, "root")
    canary = os.path.join(sc.path, "canary")
    os.makedirs(root)
    os.makedirs(canary)
    P = dict(payloads(canary))[pname]
    site = sites(P)[sname]
    for rel, text in site["files"].items():
        p = os.path.join(root, rel)
        os.makedirs(os.path.dirname(p), exist_ok=True)
        with open(p, "w") as f:
            f.write(text)
    if site["config"] is not None:
        cfg = dict(site["config"])
        cfg.pop("nthreads", None)
        with open(os.path.join(root, ".fortlsrc"), "w") as f:
            json.dump(cfg, f)
    earlier_session(root, site)
    before = (tree_hash(root), tree_hash(canary))
    from fortls.jsonrpc import path_to_uri

    doc = os.path.join(root, site["doc"])
    msgs = [{"jsonrpc": "2.0", "id": 1, "method": "initialize", "params": {"rootPath": root}},
            {"jsonrpc": "2.0", "method": "textDocument/didOpen", "params": {"textDocument": {"uri": path_to_uri(doc)}}},
            {"jsonrpc": "2.0", "id": 2, "method": "textDocument/hover",
             "params": {"textDocument": {"uri": path_to_uri(doc)}, "position": {"line": 1, "character": 14}}},
            {"jsonrpc": "2.0", "method": "exit"}]
    out, rc = run_subprocess(b"".join(frame(m) for m in msgs), site["argv"], cwd=root)
    after = (tree_hash(root), tree_hash(canary))
    acc.case(nontrivial_key=(pname, sname), outcome=rc)
    if before != after:
        acc.violation(Violation("subprocess_fs", {"family": "subprocess_fs", "obs": "tree_changed", "site": sname},
                                {"payload": pname, "site": sname}, "unchanged", str(os.listdir(canary))))


def inventory():
    """Syntactic call sites of dangerous primitives in the package (informational)."""
    names = {"eval", "exec", "compile", "system", "Popen", "run", "call", "check_output", "loads", "load"}
    out = []
    for dp, dn, fn in os.walk(os.path.join(core.REPO, "fortls")):
        for f in fn:
            if not f.endswith(".py"):
                continue
            p = os.path.join(dp, f)
            try:
                tree = pyast.parse(open(p).read())
            except SyntaxError:
                continue
            for node in pyast.walk(tree):
                if isinstance(node, pyast.Call):
                    fnn = node.func
                    name = fnn.id if isinstance(fnn, pyast.Name) else (fnn.attr if isinstance(fnn, pyast.Attribute) else None)
                    if name in names:
                        base = pyast.unparse(fnn)
                        if base in ("eval", "exec", "os.system", "subprocess.run", "subprocess.Popen", "subprocess.call",
                                    "pickle.loads", "pickle.load", "marshal.loads") or base.endswith(".system"):
                            out.append(f"{os.path.relpath(p, core.REPO)}:{node.lineno}: {base}(...)")
    return sorted(out)


def main(ctx):
    q = ctx.quick
    ctx.rule = ("every (payload, injection site, path) triple: 13 host-language payloads carrying a marker x 22 sites "
                "(#if/#elif text, macro bodies reaching #if directly / via header / config / command line / multi-line / "
                "function-like macros, lower-case pp suffix, INCLUDE, strings, directive names, config strings) x 4 paths "
                "(start-up, didOpen, didChange, didSave), each followed by positional requests on every line. "
                "Non-trivial: all; distinct by triple.")
    ctx.assumptions = ["the interpreter audit hook sees every compile/exec/open/os.* event of the harness process; the "
                       "worker pool is the synchronous stand-in so that parsing happens in the audited process",
                       "the real-executable slice is judged by the file-system oracle only"]
    canary = "/x"
    pn = [p for p, _ in payloads(canary)]
    sn = list(sites("P"))
    jobs = [(p, s, k) for p in pn for s in sn for k in PATHS]
    acc = core.pmap(run_case, jobs, chunk=4, budget_s=120, label="C17/audit")
    ctx.add_family("audit", acc, payloads=len(pn), sites=len(sn), paths=len(PATHS))
    sjobs = [(p, s) for p in (pn[:2] if q else pn) for s in (["define_if", "header", "ppdefs_config", "function_macro_body"] if q else sn)]
    sacc = core.pmap(subprocess_case, sjobs, chunk=1, budget_s=120, label="C17/subprocess")
    ctx.add_family("subprocess_fs", sacc)
    ctx.coverage_extra["dangerous_call_sites_in_package"] = inventory()


def replay(rec):
    c = rec["case"]
    acc = Acc()
    if rec["family"] == "audit":
        run_case((c["payload"], c["site"], c["path"]), acc)
    else:
        subprocess_case((c["payload"], c["site"]), acc)
    return [v.to_json("C17") for v in acc.violations] or None
