"""C15 — the start-up index does not depend on workers, enumeration order or hash seed.

Schedule enumeration + BFS over the open-order lattice.
  (i)   every permutation of the order in which start-up enumerates the source files
        (this subsumes directory listing order and the iteration order of the
        source_dirs set), and every iteration order of the include_dirs set
  (ii)  worker counts 1, 2, 3, 4, 8, 16 with the real multiprocessing pool
  (iii) the real executable under PYTHONHASHSEED 0..K x --nthreads {1, 4, 16}
  (iv)  BFS from a server started on an empty directory where each transition
        creates and opens one more file: all subsets through all orders, merged on
        the heap canon; every full state is compared
Oracle: the query battery is identical everywhere and equal to the reference
start-up.
"""
from __future__ import annotations

import itertools
import os

from .. import core
from ..battery import battery_script, collect_script, diff_batteries, kind_of_key, run_battery, script_in_process
from ..canon import server_state
from ..core import Acc, Violation
from ..driver import Server, frame, parse_frames, run_subprocess, worker_scratch

LEVEL = "model_checking"

WORKSPACES = {
    "WA_use_chain": {
        "a/m1.f90": "module um1\n  implicit none\n  type :: ut\n    integer :: uc\n  end type ut\n  integer :: uv1\nend module um1\n",
        "a/m2.f90": "module um2\n  use um1\n  implicit none\n  type(ut) :: uobj\ncontains\n  subroutine us2(x)\n    integer :: x\n    uv1 = x\n  end subroutine us2\nend module um2\n",
        "b/p.f90": "program up\n  use um2\n  implicit none\n  uobj%uc = 1\n  call us2(uv1)\nend program up\n",
    },
    "WB_inherit": {
        "p.f90": "module bpm\n  implicit none\n  type, abstract :: bpt\n    integer :: bbase\n  contains\n    procedure(bri), deferred :: brun\n  end type bpt\n  abstract interface\n    subroutine bri(self)\n      import bpt\n      class(bpt) :: self\n    end subroutine bri\n  end interface\nend module bpm\n",
        "c.f90": "module bcm\n  use bpm\n  implicit none\n  type, extends(bpt) :: bct\n    integer :: bown\n  contains\n    procedure :: brun => bcrun\n  end type bct\ncontains\n  subroutine bcrun(self)\n    class(bct) :: self\n    self%bbase = self%bown\n  end subroutine bcrun\nend module bcm\n",
        "d.f90": "module bdm\n  use bcm\n  implicit none\n  type, extends(bct) :: bdt\n  end type bdt\ncontains\n  subroutine buse(v)\n    type(bdt) :: v\n    v%bbase = 1\n    call v%brun()\n  end subroutine buse\nend module bdm\n",
    },
    "WC_submodules": {
        "m.f90": "module cm\n  implicit none\n  interface\n    module subroutine cs1(a)\n      integer :: a\n    end subroutine cs1\n    module function cf2(b) result(r)\n      real :: b, r\n    end function cf2\n    module function cf3(x) result(res)\n      real :: x, res\n    end function cf3\n  end interface\nend module cm\n",
        # the direct submodule implements with the short form (its dummy arguments exist only in the
        # parent's interface), the sub-submodule with the full form
        "s1.f90": "submodule (cm) csm1\n  implicit none\n  integer :: chidden\ncontains\n  module procedure cs1\n    a = chidden\n  end procedure cs1\n  module procedure cf3\n    res = x\n  end procedure cf3\nend submodule csm1\n",
        "s2.f90": "submodule (cm:csm1) csm2\n  implicit none\ncontains\n  module function cf2(b) result(r)\n    real :: b, r\n    r = b + chidden\n  end function cf2\nend submodule csm2\n",
    },
    "WD_generic_include": {
        "g1.f90": "module dg1\n  implicit none\ncontains\n  subroutine dsi(x)\n    integer :: x\n  end subroutine dsi\n  subroutine dsr(x)\n    real :: x\n  end subroutine dsr\nend module dg1\n",
        "g2.f90": "module dg2\n  use dg1\n  implicit none\n  interface dgen\n    module procedure dsi, dsr\n  end interface dgen\n  include 'dinc1.f90'\ncontains\n  subroutine duse()\n    call dgen(dfrom1)\n    call dgen(dfrom2)\n  end subroutine duse\nend module dg2\n",
        "dinc1.f90": "  integer :: dfrom1\n  include 'dinc2.f90'\n",
        "dinc2.f90": "  real :: dfrom2\n",
    },
    "WE_header_elsewhere": {
        "a/x.F90": "module ex\n#include \"eh.h\"\n#ifdef E_FROM_HEADER\n  integer :: e_seen\n#endif\n  integer :: e_always\nend module ex\n",
        "b/y.F90": "module ey\n#include \"eh.h\"\n#ifdef E_FROM_HEADER\n  integer :: e_seen_y\n#endif\nend module ey\n",
        "b/eh.h": "#define E_FROM_HEADER 1\n",
    },
    # a link of one file (procedure(integrand) :: f) goes through an entity that another file owns only through an
    # INCLUDE: every include must be spliced in before any link is resolved, whatever the order of the files
    "WG_include_link": {
        "a_quad.f90": "module gquad\n  use gcallbacks\n  implicit none\ncontains\n  function gintegrate(f, a) result(r)\n    procedure(gintegrand) :: f\n    real :: a, r\n    r = f(a)\n  end function gintegrate\nend module gquad\n",
        "m_callbacks.f90": "module gcallbacks\n  implicit none\n  include 'z_callbacks_decl.f90'\nend module gcallbacks\n",
        "z_callbacks_decl.f90": "  abstract interface\n    function gintegrand(x) result(y)\n      real, intent(in) :: x\n      real :: y\n    end function gintegrand\n  end interface\n  integer :: gcount\n",
    },
    # the same function-like macro name with a different body in two preprocessed files
    "WF_macros": {
        "fa.F90": "#define FDECL(n) integer :: n\n#define FTWO(a, b) a, b\nmodule fam\n  implicit none\n  FDECL(falpha)\n  integer :: FTWO(fa1, fa2)\nend module fam\n",
        "fb.F90": "#define FDECL(n) real :: n\n#define FTWO(a) a\nmodule fbm\n  implicit none\n  FDECL(fbeta)\n  real :: FTWO(fb1)\nend module fbm\n",
        "fu.f90": "program fu\n  use fam\n  use fbm\n  implicit none\n  falpha = fa1 + fa2\n  fbeta = fb1\nend program fu\n",
    },
}
# a macro defined by one preprocessed file and tested by another that does not define it: at start-up every file is parsed
# with the configured definitions only (whatever the number of workers), so the other file never sees it
WORKSPACES["WJ_macro_in_one_file"] = {
    "ja.F90": "#define J_WITH_EXTRA 1\nmodule jam\n  implicit none\n  integer :: ja1\nend module jam\n",
    "jb.F90": "module jbm\n  implicit none\n  integer :: jb1\n#ifdef J_WITH_EXTRA\n  integer :: jb_extra\n#endif\nend module jbm\n",
    "ju.f90": "program ju\n  use jam\n  use jbm\n  implicit none\n  jb1 = ja1\nend program ju\n",
}
# two files declare entities with the same attribute list; one of them is later named by a separate EXTERNAL statement:
# whatever a process remembers about an attribute list must not carry that over to the other file's entity
WORKSPACES["WH_same_attributes"] = {
    "ha.f90": "module ham\n  implicit none\ncontains\n  subroutine hsa(hf, hg)\n    real, optional :: hf\n    external hf\n    integer, optional :: hg\n    if (present(hg)) hg = 1\n  end subroutine hsa\nend module ham\n",
    "hb.f90": "module hbm\n  implicit none\ncontains\n  subroutine hsb(hfac, hn)\n    real, optional :: hfac\n    integer, optional :: hn\n    external hn\n    if (present(hfac)) hfac = 1.0\n  end subroutine hsb\nend module hbm\n",
    "hu.f90": "program hu\n  use ham\n  use hbm\n  implicit none\n  call hsb(hfac=2.0)\n  call hsa(hg=3)\nend program hu\n",
}
# a type in a sub-submodule extends a type of the ancestor module; the intermediate submodule lives in another file
WORKSPACES["WI_subsubmodule_inherit"] = {
    "im.f90": "module imod\n  implicit none\n  type :: ibase\n    integer :: ig\n  end type ibase\n  interface\n    module subroutine irun(n)\n      integer :: n\n    end subroutine irun\n  end interface\nend module imod\n",
    "is1.f90": "submodule (imod) is1\n  implicit none\n  integer :: ihidden\nend submodule is1\n",
    "is2.f90": "submodule (imod:is1) is2\n  implicit none\n  type, extends(ibase) :: ichild\n    integer :: ic\n  end type ichild\ncontains\n  module subroutine irun(n)\n    integer :: n\n    type(ichild) :: x\n    x%ic = x%ig + ihidden + n\n  end subroutine irun\nend submodule is2\n",
}
DUP_HEADER = {
    "files": {
        "main.F90": "module fm\n#include \"fh.h\"\n#if F_WHICH == 1\n  integer :: f_one\n#endif\n#if F_WHICH == 2\n  integer :: f_two\n#endif\nend module fm\n",
        "inc1/fh.h": "#define F_WHICH 1\n", "inc2/fh.h": "#define F_WHICH 2\n",
        ".fortlsrc": '{"include_dirs": ["inc1", "inc2"]}\n',
    },
}


def sources(ws):
    return {k: v for k, v in WORKSPACES[ws].items() if not k.endswith(".h")}


def write_ws(root, files):
    for rel, text in files.items():
        p = os.path.join(root, rel)
        os.makedirs(os.path.dirname(p), exist_ok=True)
        with open(p, "w") as f:
            f.write(text)


class ScriptedSet(set):
    """A set whose iteration order is scripted (stands for a hash seed)."""

    def __init__(self, items, order):
        super().__init__(items)
        self._order = list(order)

    def __iter__(self):
        return iter(self._order)

    def copy(self):
        return ScriptedSet(set(self), self._order)


def battery_of(s, root, ws_files):
    return run_battery(s, root, ws_files)


def reference(ws, root):
    s = Server([], fake_pool=False)
    s.initialize(root)
    return battery_of(s, root, sources(ws))


def _viol(acc, fam, ws, sched, got, want, extra=None):
    d = diff_batteries(got, want, limit=3)
    for k, a, b in d[:1]:
        acc.violation(Violation(
            fam, {"family": fam, "ws": ws, "kind": kind_of_key(k), "subject": k.split(":")[-1], **(extra or {})},
            {"ws": ws, "schedule": sched}, {"reference": b}, {"this_schedule": a, "query": k},
            what=f"{ws} {fam} schedule={sched} differs at {k}"))
    return bool(d)


# ------------------------------------------------------------- (i) orders
def order_case(job, acc: Acc):
    ws, perm = job
    sc = worker_scratch("c15")
    sc.wipe()
    root = os.path.realpath(sc.path)
    write_ws(root, WORKSPACES[ws])
    want = reference(ws, root) if ("ref", ws) not in _REF else _REF[("ref", ws)]
    _REF[("ref", ws)] = want
    s = Server([], fake_pool=True)
    real = s.srv._get_source_files

    def scripted():
        lst = sorted(real())
        assert len(lst) == len(perm), (lst, perm)
        return [lst[i] for i in perm]

    s.srv._get_source_files = scripted
    s.initialize(root)
    got = battery_of(s, root, sources(ws))
    acc.case(nontrivial_key=(ws, perm), outcome=core.h64(repr(sorted(got.items()))))
    acc.count("schedules")
    _viol(acc, "enumeration_order", ws, list(perm), got, want)
    if len(acc.samples) < 1:
        acc.sample({"workspace": ws, "file_order": list(perm)})


_REF = {}


# ------------------------------------------------------------ (ii) workers
def workers_case(job, acc: Acc):
    ws, n = job
    sc = worker_scratch("c15")
    sc.wipe()
    root = os.path.realpath(sc.path)
    write_ws(root, WORKSPACES[ws])
    want = reference(ws, root)
    s = Server(["--nthreads", str(n)] if n else [], fake_pool=(n == 0))
    s.initialize(root)
    got = battery_of(s, root, sources(ws))
    acc.case(nontrivial_key=(ws, n), outcome=core.h64(repr(sorted(got.items()))))
    acc.count("schedules")
    _viol(acc, "worker_count", ws, n, got, want)


# ------------------------------------------------------- (iii) subprocess
def subprocess_case(job, acc: Acc):
    ws, seed, nthreads = job
    sc = worker_scratch("c15")
    sc.wipe()
    root = os.path.realpath(sc.path)
    write_ws(root, WORKSPACES[ws])
    msgs, keys = battery_script(root, sources(ws))
    s = Server([], fake_pool=False)
    s.initialize(root)
    want = collect_script(script_in_process(s, msgs), keys, root)
    stream = [{"jsonrpc": "2.0", "id": 1, "method": "initialize", "params": {"rootPath": root}}] + msgs + [{"jsonrpc": "2.0", "method": "exit"}]
    out, rc = run_subprocess(b"".join(frame(m) for m in stream), ["--nthreads", str(nthreads)], cwd=root,
                             env_extra={"PYTHONHASHSEED": str(seed)}, timeout=120)
    got = collect_script([o for (_, _, o) in parse_frames(out)], keys, root)
    acc.case(nontrivial_key=(ws, seed, nthreads), outcome=core.h64(repr(sorted(got.items()))))
    acc.count("schedules")
    if not _viol(acc, "hash_seed", ws, {"PYTHONHASHSEED": seed, "nthreads": nthreads}, got, want):
        acc.count("identical_transcripts")


# ------------------------------------------------------- include_dirs order
def dup_header_case(seeds, acc: Acc):
    """Two include directories holding a header of the same name: which one wins must
    not depend on the interpreter's hash seed.  Real executable, one run per seed."""
    sc = worker_scratch("c15")
    sc.wipe()
    root = os.path.realpath(sc.path)
    write_ws(root, DUP_HEADER["files"])
    files = {"main.F90": DUP_HEADER["files"]["main.F90"]}
    msgs, keys = battery_script(root, files)
    stream = [{"jsonrpc": "2.0", "id": 1, "method": "initialize", "params": {"rootPath": root}}] + msgs + [{"jsonrpc": "2.0", "method": "exit"}]
    obs = {}
    for seed in seeds:
        out, rc = run_subprocess(b"".join(frame(m) for m in stream), [], cwd=root, env_extra={"PYTHONHASHSEED": str(seed)}, timeout=120)
        obs[seed] = collect_script([o for (_, _, o) in parse_frames(out)], keys, root)
        acc.case(nontrivial_key=("dup_header", seed), outcome=core.h64(repr(sorted(obs[seed].items()))))
        acc.count("schedules")
    first = obs[seeds[0]]
    for seed in seeds[1:]:
        if _viol(acc, "include_dirs_order", "dup_header", {"PYTHONHASHSEED": [seeds[0], seed]}, obs[seed], first, {"dup_header": True}):
            break


# ------------------------------------------------------------- (iv) lattice
def lattice_expand(job, acc: Acc):
    ws, hist, collect = job
    sc = worker_scratch("c15")
    files = sorted(sources(ws))
    succ = []
    for f in files:
        if f in hist:
            continue
        sc.wipe()
        root = os.path.realpath(sc.path)
        os.makedirs(root, exist_ok=True)
        s = Server([], fake_pool=False)
        s.initialize(root)  # an empty directory
        h2 = list(hist) + [f]
        for g in h2:
            # headers travel with the first source of their directory (they are not opened by an editor)
            for rel, text in WORKSPACES[ws].items():
                if rel.endswith(".h") and os.path.dirname(rel) == os.path.dirname(g):
                    write_ws(root, {rel: text})
            write_ws(root, {g: WORKSPACES[ws][g]})
            s.open(os.path.join(root, g))
        acc.count("transitions")
        full = len(h2) == len(files)
        if full:
            # reference: ordinary start-up on the complete directory
            want = _REF.get(("lat", ws))
            if want is None:
                want = _REF[("lat", ws)] = reference(ws, root)
            got = battery_of(s, root, sources(ws))
            acc.case(nontrivial_key=(ws, tuple(h2)), outcome=core.h64(repr(sorted(got.items()))))
            acc.count("full_states_compared")
            _viol(acc, "open_order", ws, h2, got, want)
        else:
            acc.case(nontrivial_key=None, outcome=None)
        if collect and not full:
            dg, _ = server_state(s.srv, root)
            succ.append(((ws, dg, tuple(sorted(h2))), tuple(h2)))
        acc.states.add(core.h64((ws, tuple(sorted(h2)))))
    acc.succ.extend(succ)


def lattice(ctx, ws):
    total = Acc()
    seen = {}
    frontier = [()]
    n = len(sources(ws))
    trans = 0
    for d in range(1, n + 1):
        jobs = [(ws, h, d < n) for h in frontier]
        acc = core.pmap(lattice_expand, jobs, chunk=1, budget_s=600, label=f"C15/lattice/{ws}")
        succ, acc.succ = acc.succ, []
        trans += acc.counters.get("transitions", 0)
        new = []
        for key, h in sorted(succ, key=lambda x: x[1]):
            if key not in seen:
                seen[key] = h
                new.append(h)
        total.merge(acc)
        frontier = new
        if not frontier:
            break
    return total, len(seen) + 1, trans


def main(ctx):
    q = ctx.quick
    ctx.rule = ("(i) all permutations of the start-up file enumeration order per workspace (and all iteration orders of the "
                "include_dirs set on the duplicate-header workspace); (ii) worker counts 1,2,3,4,8,16 real pool + synchronous "
                "stand-in; (iii) real executable x PYTHONHASHSEED x nthreads; (iv) BFS over the lattice of created+opened "
                "subsets from an empty directory, all orders. Oracle: battery equality with the reference start-up. "
                "Non-trivial: all; distinct by (workspace, schedule).")
    ctx.assumptions = ["top-level unit names are unique (the statement's precondition)",
                       "the effect of the hash seed on start-up is the iteration order of str sets; (iii) validates this on the real executable",
                       "headers are created together with the first opened source of their directory"]
    wss = list(WORKSPACES)
    jobs = [(ws, perm) for ws in wss for perm in itertools.permutations(range(len(sources(ws))))]
    acc = core.pmap(order_case, jobs, chunk=2, budget_s=300, label="C15/orders")
    ctx.add_family("enumeration_order", acc)
    wacc = core.pmap(workers_case, [(ws, n) for ws in wss for n in (0, 1, 2, 3, 4, 8, 16)], chunk=1, budget_s=300, label="C15/workers")
    ctx.add_family("worker_count", wacc)
    seeds = range(3) if q else range(8)
    sacc = core.pmap(subprocess_case, [(ws, sd, nt) for ws in wss for sd in seeds for nt in ((4,) if q else (1, 4, 16))],
                     chunk=1, budget_s=300, label="C15/seeds")
    ctx.add_family("hash_seed", sacc)
    dacc = core.pmap(dup_header_case, [tuple(range(8))], chunk=1, budget_s=300, label="C15/dup")
    ctx.add_family("include_dirs_order", dacc)
    states = trans = 0
    for ws in wss:
        lacc, st, tr = lattice(ctx, ws)
        ctx.add_family("open_order:" + ws, lacc, states=st)
        states += st
        trans += tr
    ctx.states, ctx.transitions = states, trans
    ctx.traces_validated = sacc.counters.get("identical_transcripts", 0)
    ctx.coverage_extra["schedules"] = acc.counters.get("schedules", 0) + wacc.counters.get("schedules", 0) + sacc.counters.get("schedules", 0) + 2
    ctx.coverage_extra["note"] = ("states/transitions count the open-order lattice; traces_validated_against_impl counts runs of the "
                                  "real executable whose transcript equals the in-process one")


def replay(rec):
    c = rec["case"]
    acc = Acc()
    fam = rec["family"]
    if fam == "enumeration_order":
        order_case((c["ws"], tuple(c["schedule"])), acc)
    elif fam == "worker_count":
        workers_case((c["ws"], c["schedule"]), acc)
    elif fam == "hash_seed":
        subprocess_case((c["ws"], c["schedule"]["PYTHONHASHSEED"], c["schedule"]["nthreads"]), acc)
    elif fam == "include_dirs_order":
        dup_header_case(tuple(range(8)), acc)
    else:
        h = c["schedule"]
        lattice_expand((c["ws"], tuple(h[:-1]), False), acc)
        acc.violations = [v for v in acc.violations if v.case["schedule"] == h]
    return [v.to_json("C15") for v in acc.violations] or None
