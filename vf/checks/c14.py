"""C14 — fixed-form sources are recognised and understood like their free-form twin.

Enumeration of (program, rendering):
  classification  every fixed-form rendering must be classified fixed, every free-form
                  layout of C13 and every *unindented* free-form layout must not
  equivalence     every canonical program rendered in fixed form — comment lines with
                  each of C c * ! d D in every line gap, continuation at every token
                  boundary with each of the markers & 1 + $, statement labels in columns
                  1-5, labelled DO termination (CONTINUE, shared label, labelled last
                  statement), a zero in column 6 of initial lines, continued text that starts
                  directly after the mark in column 7 (also on the second line of the file),
                  trailing '!' comments that name the statement's entities after plain and
                  after continued lines — must give the same token-keyed battery as the
                  free-form rendering (through the renderer's exact token map); the names
                  inside a trailing comment are asked too and compared with the same comment
                  in the free-form rendering
"""
from __future__ import annotations

import os

from .. import core, layout, programs
from ..core import Acc, Violation
from . import c13

LEVEL = "exploration"

COMMENT_CHARS = ["C", "c", "*", "!", "d", "D"]
CONT_CHARS = ["&", "1", "+", "$", "x", "A", "!", "*", "#"]   # any character but blank and zero may mark a continuation
ALL = {**programs.PROGRAMS, **programs.LABEL_PROGRAMS}
CLASSIFY_ONLY = programs.NODECL_PROGRAMS


def fixed_layouts(stmts, quick):
    """[(name, anchor, kwargs)] fixed-form renderings."""
    L = [("plain", None, {})]
    code = [i for i, s in enumerate(stmts) if s.kind == "code"]
    for ci, ch in enumerate(COMMENT_CHARS):
        for i in range(len(stmts)):
            if quick and (i + ci) % 3:
                continue
            L.append((f"comment:{ch}", i, {"comment_above": {i: 1}, "fixed_comment_char": ch}))
    for mi, mk in enumerate(CONT_CHARS):
        for i in code:
            for t in range(1, len(stmts[i].toks)):
                if stmts[i].toks[0][2].isdigit() and t == 1:
                    continue  # the label stays alone in columns 1-5
                if quick and (i + t + mi) % 4:
                    continue
                L.append((f"cont:{mk}", i, {"split": {i: [(t, "plain")]}, "fixed_cont_char": mk}))
                if (i + t) % 5 == 0:
                    L.append((f"cont_comment_between:{mk}", i, {"split": {i: [(t, "comment_between")]}, "fixed_cont_char": mk}))
    # two statements on one line: after the ';' the next statement starts anywhere, also directly, and its first letter
    # (call, do, character, double, class, contains, data) is no comment flag there
    for i in code:
        if i + 1 < len(stmts) and stmts[i + 1].kind == "code" and not stmts[i + 1].toks[0][2].isdigit():
            if quick and i % 2:
                continue
            L.append(("join", i, {"join_next": {i}}))
            L.append(("join_tight", i, {"join_next": {i}, "join_sep": ";"}))
    # a zero in column 6 is, like a blank, the mark of an initial line: on every statement, on one statement, on a
    # continued statement and on the statement that follows a continued one
    L.append(("zero_col6:all", None, {"zero_col6": set(code)}))
    for i in code:
        labelled = stmts[i].toks[0][2].isdigit()
        if quick and i % 6 and not labelled:
            continue
        L.append(("zero_col6:one", i, {"zero_col6": {i}}))
    # variants of the continuation renderings (rendering "cont", tag `variant`); quick: every n-th boundary of the
    # enumeration (marker, statement, boundary), so that successive picks differ in marker, statement and boundary
    n = 0
    for mi, mk in enumerate(CONT_CHARS):
        for i in code:
            nt = len(stmts[i].toks)
            labelled = stmts[i].toks[0][2].isdigit()
            for t in range(2 if labelled else 1, nt):
                n += 1
                # tight: no blank between the mark and the text, `     xm)`; on the statement that starts the file the
                # continuation is the second line of the file
                if (mk in "x1&" and i == code[0]) or not n % (181 if quick else 9):
                    L.append((f"cont:{mk}:tight", i, {"split": {i: [(t, "plain")]}, "fixed_cont_char": mk, "fixed_cont_tight": True}))
                # a trailing comment after the non-final line(s) of the statement
                if not n % (211 if quick else 12):
                    L.append((f"cont:{mk}:trail_comment", i, {"split": {i: [(t, "trail_comment")]}, "fixed_cont_char": mk, "comment_names": True}))
                if not (n + 1) % (41 if quick else 16) and t + 2 < nt:
                    L.append((f"cont:{mk}:trail_comment2", i, {"split": {i: [(t, "trail_comment"), (nt - 1, "trail_comment")]},
                                                               "fixed_cont_char": mk, "comment_names": True}))
                if not (n + 2) % (401 if quick else 18):
                    L.append((f"cont:{mk}:zero_col6", i, {"split": {i: [(t, "plain")]}, "fixed_cont_char": mk, "zero_col6": {i}}))
                if not (n + 3) % (401 if quick else 18) and i + 1 < len(stmts) and stmts[i + 1].kind == "code":
                    L.append((f"cont:{mk}:zero_next", i, {"split": {i: [(t, "plain")]}, "fixed_cont_char": mk, "zero_col6": {i + 1}}))
    # a trailing '!' comment that names the entities of its statement
    L.append(("trail_comment:all", None, {"trailing_comment": set(code), "comment_names": True}))
    for i in code:
        if quick and i % 6:
            continue
        L.append(("trail_comment:one", i, {"trailing_comment": {i}, "comment_names": True}))
    L.append(("case:upper", None, {"case": "upper"}))
    L.append(("case:lower", None, {"case": "lower"}))
    L.append(("crlf", None, {"eol": "\r\n"}))
    L.append(("trailing_blanks", None, {"trailing_blanks": 3}))
    return [(n, a, {**kw, "fixed": True}) for n, a, kw in L]


_ORIG = {}


def _stmts(pname):
    st = _ORIG.get(("stmts", pname))
    if st is None:
        st = _ORIG[("stmts", pname)] = layout.parse_program(ALL[pname] if pname in ALL else CLASSIFY_ONLY[pname])
    return st


def equiv_case(job, acc: Acc):
    pname, lname, anchor, kw = job
    stmts = _stmts(pname)
    if ("bat", pname) not in _ORIG:
        _ORIG[("bat", pname)] = c13.token_battery(stmts, layout.render(stmts), pname + ".f90")[0]
    orig = dict(_ORIG[("bat", pname)])
    lay = layout.Layout(**kw)
    rend = layout.render(stmts, lay)
    if any(len(x) > 72 for x in rend.text.replace("\r", "").split("\n")):
        acc.count("skipped_line_longer_than_72")
        return
    trans, rev_t = c13.token_battery(stmts, rend, pname + ".f", light_far_from=anchor)
    if rend.compos:
        # the names inside the generated trailing comments: same answers as for the same comment in free form
        twin = layout.render(stmts, layout.Layout(**{**kw, "fixed": False}))
        want, got = comment_battery(stmts, twin, pname + ".f90"), comment_battery(stmts, rend, pname + ".f")
        for k in got:
            orig[k], trans[k] = want.get(k, "<no such comment in free form>"), got[k]
    acc.case(nontrivial_key=(pname, lname, anchor, repr(sorted(lay.describe().items()))), outcome=(pname, lname.split(":")[0]))
    if lay.comment_names and not rend.compos:
        acc.count("skipped_no_room_for_a_comment")
        return
    tags0 = {"family": "equivalence", "program": pname, "rendering": lname.split(":")[0], "marker": lname.split(":")[1] if ":" in lname else "",
             "variant": lname.split(":")[2] if lname.count(":") > 1 else "",
             "stmt_first": stmts[anchor].toks[0][2].lower() if anchor is not None and stmts[anchor].kind == "code" else ""}
    case = {"program": pname, "rendering": lname, "anchor": anchor, "layout": lay.describe()}
    if trans.get("fixed_flag") is not True:
        acc.violation(Violation("equivalence", {**tags0, "kind": "classified_free"}, case, "fixed", trans.get("fixed_flag"),
                                what=f"{pname} {lname} at {anchor}: fixed-form rendering classified as free form"))
        return
    diffs = c13.compare({k: v for k, v in orig.items() if k != "fixed_flag"}, trans, rev_t, rend, lay.case != "asis")
    if diffs and not _gfortran_fixed_ok(rend.text):
        acc.count("variants_rejected_by_gfortran")
        return
    seen = set()
    for k, a, b in diffs:
        kind = k if isinstance(k, str) else k[0]
        if kind in seen:
            continue
        seen.add(kind)
        acc.violation(Violation("equivalence", {**tags0, "kind": kind}, case, a if not isinstance(a, list) else a[:6],
                                b if not isinstance(b, list) else b[:6], what=f"{pname} {lname} at {anchor}: {kind} differs at {k}"))
    if len(acc.samples) < 2:
        acc.sample({"program": pname, "rendering": lname, "text_excerpt": rend.text[:400]})


def comment_battery(stmts, rend, fname):
    """definition / references asked on every name of the generated trailing comments of `rend`:
    {("comment_def" | "comment_refs", (statement, k)): answer located by statement / token}."""
    from ..driver import Server, worker_scratch

    sc = worker_scratch("c13")
    sc.wipe()
    path = os.path.join(os.path.realpath(sc.path), fname)
    with open(path, "w", newline="") as f:
        f.write(rend.text)
    s = Server([])
    s.initialize(os.path.dirname(path))
    rev = c13.Reverse(stmts, rend)
    out = {}
    for k, (ln, col, nm) in sorted(rend.compos.items()):
        d = s.result("textDocument/definition", Server.tdpp(path, ln, col + len(nm) // 2))
        if isinstance(d, dict):
            d = (os.path.basename(d.get("uri", fname)) == fname, tuple(rev.stmts_on(d["range"]["start"]["line"])))
        out[("comment_def", k)] = d
        r = s.result("textDocument/references", Server.tdpp(path, ln, col + len(nm) // 2, context={"includeDeclaration": True}))
        if isinstance(r, list):
            r = sorted(repr((os.path.basename(x.get("uri", fname)) == fname, rev.tok(x["range"]["start"]["line"], x["range"]["start"]["character"])))
                       for x in r)
        out[("comment_refs", k)] = r
    return out


def _gfortran_fixed_ok(text):
    import subprocess

    from ..driver import worker_scratch

    sc = worker_scratch("c13")
    p = os.path.join(sc.path, "gf_check.f")
    with open(p, "w", newline="") as f:
        f.write(text)
    r = subprocess.run(["gfortran", "-fsyntax-only", "-std=f2008", "-fd-lines-as-comments", "-J", sc.path, p], capture_output=True, text=True)
    os.unlink(p)
    return r.returncode == 0


def classify_case(job, acc: Acc):
    """Free-form layouts must never be classified as fixed form."""
    from fortls.parsers.internal.parser import FortranFile

    pname, lname, anchor, kw = job
    stmts = _stmts(pname)
    lay = layout.Layout(**kw)
    rend = layout.render(stmts, lay)
    f = FortranFile("/nonexistent/" + pname + ".f90")
    f.apply_change({"text": rend.text})
    acc.case(nontrivial_key=(pname, lname, anchor, repr(sorted(lay.describe().items()))), outcome=(bool(f.fixed),))
    if f.fixed:
        first_code = next((s.text.strip().split()[0].lower() for s in stmts if s.kind == "code"), "")
        acc.violation(Violation(
            "classification", {"family": "classification", "program": pname, "layout": lname.split(":")[0], "no_indent": bool(lay.no_indent),
                               "kind": "classified_fixed"},
            {"program": pname, "layout_name": lname, "anchor": anchor, "layout": lay.describe()}, "free form", "fixed form",
            what=f"{pname} free-form layout {lname} (no_indent={lay.no_indent}) classified as fixed form"))


# Declaration-only files (the usual shape of an include file) written flush left in free form: a line that begins with a
# type keyword in columns 1-5 is a free-form statement even when its first letter (c, d) is a fixed-form comment flag.
DECL_LINES = ["character(len=8) :: {n}", "complex :: {n}", "class(*), pointer :: {n}", "double precision :: {n}", "double complex, parameter :: {n} = (0d0, 1d0)",
              "integer :: {n}", "real, parameter :: {n} = 1.0", "logical :: {n}", "type(tt) :: {n}", "! a comment line", "", "  ! an indented comment"]


def declfile_jobs(maxlen):
    import itertools

    for n in range(1, maxlen + 1):
        for combo in itertools.product(range(len(DECL_LINES)), repeat=n):
            if any("{n}" in DECL_LINES[i] for i in combo):
                yield combo


def declfile_case(combo, acc: Acc):
    from fortls.parsers.internal.parser import FortranFile

    lines, names = [], []
    for k, i in enumerate(combo):
        if "{n}" in DECL_LINES[i]:
            names.append(f"dv{k}")
        lines.append(DECL_LINES[i].format(n=f"dv{k}"))
    text = "\n".join(lines) + "\n"
    f = FortranFile("/nonexistent/decls.f90")
    f.apply_change({"text": text})
    ast = f.parse()
    got = sorted(v.name.lower() for v in ast.variable_list)
    acc.case(nontrivial_key=combo, outcome=(bool(f.fixed), len(got)))
    tags = {"family": "declaration_files", "first_letters": "".join(sorted({ln[0] for ln in lines if ln[:1].isalpha()}))}
    if f.fixed:
        acc.violation(Violation("declaration_files", {**tags, "kind": "classified_fixed"}, {"text": text}, "free form", "fixed form",
                                what=f"{text!r} classified as fixed form"))
    elif got != sorted(names):
        acc.violation(Violation("declaration_files", {**tags, "kind": "entities"}, {"text": text}, sorted(names), got,
                                what=f"{text!r}: declared {sorted(names)}, indexed {got}"))


def main(ctx):
    q = ctx.quick
    ctx.rule = ("equivalence: 8 canonical programs rendered in fixed form x {comment line with each of C c * ! d D in every line "
                "gap, continuation at every token boundary with each marker & 1 + $ x A ! * #, with a comment line between, labels in "
                "columns 1-5, ';' joins, a zero in column 6 of every / one initial line (also of a continued statement and of the "
                "statement after one), continued text directly after the mark in column 7 (every boundary of the file's first "
                "statement: the continuation is line 1 of the file), a trailing '!' comment naming the statement's identifiers "
                "after every / one code line and after the non-final line(s) of a statement continued once or twice, case, CRLF, "
                "trailing blanks} (quick: every 3rd gap / 4th boundary per marker, every n-th boundary for the variants) compared "
                "with the free-form rendering through the exact token map; the names inside the trailing comments are asked too "
                "(definition, references) and compared with the same comment in free form; classification: every free-form layout "
                "of C13 and the same layouts without indentation must be classified free. Non-trivial: all; distinct by (program, "
                "rendering, place).")
    ctx.assumptions = ["renderings with a line longer than 72 columns are skipped", "renderings rejected by gfortran (fixed form, "
                       "-fd-lines-as-comments) are skipped", "same comparison rules as C13",
                       "a trailing comment is cut so that the line ends by column 72; statements that leave no room for one name are skipped"]
    jobs = []
    for pname in ALL:
        stmts = layout.parse_program(ALL[pname])
        for lname, anchor, kw in fixed_layouts(stmts, q):
            jobs.append((pname, lname, anchor, kw))
    acc = core.pmap(equiv_case, jobs, chunk=8, budget_s=120, label="C14/equiv")
    ctx.add_family("equivalence", acc, renderings=len(jobs))
    cjobs = []
    for pname in ALL:
        stmts = layout.parse_program(ALL[pname])
        for tname, anchor, kw in c13.single_transformations(stmts, q):
            cjobs.append((pname, tname, anchor, kw))
            if anchor is None or tname in ("blank_above", "comment_above", "join"):
                cjobs.append((pname, tname + "+no_indent", anchor, {**kw, "no_indent": True}))
        cjobs.append((pname, "no_indent", None, {"no_indent": True}))
    for pname in CLASSIFY_ONLY:
        if pname == "indented_deep":
            continue  # statements start in column 7: both readings are possible, not a free-form-only text
        stmts = layout.parse_program(CLASSIFY_ONLY[pname])
        cjobs.append((pname, "as_written", None, {}))
        for tname, anchor, kw in c13.single_transformations(stmts, False):
            if not tname.startswith("split"):
                cjobs.append((pname, tname, anchor, kw))
    cacc = core.pmap(classify_case, cjobs, chunk=64, budget_s=60, label="C14/classify")
    ctx.add_family("classification", cacc, layouts=len(cjobs))
    djobs = list(declfile_jobs(3 if q else 4))
    dacc = core.pmap(declfile_case, djobs, chunk=128, budget_s=60, label="C14/declfiles")
    ctx.add_family("declaration_files", dacc, lines=len(DECL_LINES), max_lines=3 if q else 4,
                   what="flush-left free-form files of declarations, comment and blank lines: classified free, every entity indexed")


def replay(rec):
    c = rec["case"]
    acc = Acc()
    lay = c.get("layout", {})
    kw = {}
    for k, v in lay.items():
        if k in ("blank_above", "comment_above"):
            kw[k] = {int(a): b for a, b in v.items()}
        elif k == "split":
            kw[k] = {int(a): [tuple(x) for x in b] for a, b in v.items()}
        elif k in ("trailing_comment", "join_next", "zero_col6"):
            kw[k] = set(v)
        else:
            kw[k] = v
    if rec["family"] == "declaration_files":
        import re as _re

        combo = [DECL_LINES.index(_re.sub(r"dv\d+", "{n}", ln)) for ln in c["text"].split("\n")[:-1]]
        declfile_case(tuple(combo), acc)
        return [v.to_json("C14") for v in acc.violations] or None
    if rec["family"] == "equivalence":
        equiv_case((c["program"], c["rendering"], c["anchor"], kw), acc)
    else:
        classify_case((c["program"], c["layout_name"], c["anchor"], kw), acc)
    return [v.to_json("C14") for v in acc.violations] or None
