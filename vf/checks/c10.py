"""C10 — after saving, answers depend only on the files, not on the edit history.

Explicit-state BFS over histories of sync events on a real directory.  A state is
a history; build(history) creates the directory, starts a fresh real server on it
(real worker pool) and replays the events through the real notification handlers.
States are merged on (heap canon of the server, disk contents, open buffers, dirty
flags).  At every quiescent state (no open document changed since its last
open/save) the query battery of the long-lived server must equal the battery of a
freshly started server on the same directory.
"""
from __future__ import annotations

import os

from .. import core
from ..battery import diff_batteries, kind_of_key, run_battery
from ..canon import server_state
from ..core import Acc, Violation
from ..driver import Server, worker_scratch

LEVEL = "model_checking"

# the common battery plus textDocument/implementation at every identifier (bindings, interface bodies)
REQUESTS = ("definition", "hover", "implementation", "references", "completion", "signatureHelp")

# workspace -> file -> [versions]; version 0 is on disk initially (None = absent initially)
WORKSPACES = {
    "W1_types": {
        "t.f90": [
            "module tm\n  implicit none\n  type :: tt\n    integer :: c1\n    real :: keep\n  end type tt\nend module tm\n",
            "module tm\n  implicit none\n  type :: tt\n    integer :: c2\n    real :: keep\n  end type tt\nend module tm\n",
            "module tm\n  implicit none\n  integer :: no_type_any_more\nend module tm\n",
        ],
        "u.f90": [
            "program u\n  use tm\n  implicit none\n  type(tt) :: v\n  v%c1 = 1\n  v%keep = 2.0\nend program u\n",
            "program u\n  use tm\n  implicit none\n  type(tt) :: v\n  v%c2 = 1\nend program u\n",
        ],
    },
    "W2_procs": {
        "a.f90": [
            "module am\n  implicit none\ncontains\n  subroutine s1(x)\n    integer :: x\n    x = 1\n  end subroutine s1\nend module am\n",
            "module am2\n  implicit none\ncontains\n  subroutine s1(x)\n    integer :: x\n    x = 1\n  end subroutine s1\nend module am2\n",
            "module am\n  implicit none\ncontains\n  subroutine s1(x, y)\n    integer :: x\n    real :: y\n    x = 1\n  end subroutine s1\n  subroutine s2()\n  end subroutine s2\nend module am\n",
        ],
        "b.f90": [
            "module bm\n  use am\n  implicit none\n  interface g\n    module procedure s1\n  end interface g\ncontains\n  subroutine bs()\n    integer :: k\n    call s1(k)\n    call g(k)\n  end subroutine bs\nend module bm\n",
            "module bm\n  use am2\n  implicit none\ncontains\n  subroutine bs()\n    integer :: k\n    call s1(k)\n  end subroutine bs\nend module bm\n",
        ],
        "c.f90": [
            None,
            "program cp\n  use bm\n  implicit none\n  call bs()\nend program cp\n",
        ],
    },
    "W3_inherit": {
        "p.f90": [
            "module pm\n  implicit none\n  type, abstract :: pt\n    integer :: base\n  contains\n    procedure(ri), deferred :: run\n  end type pt\n  abstract interface\n    subroutine ri(self)\n      import pt\n      class(pt) :: self\n    end subroutine ri\n  end interface\nend module pm\n",
            "module pm\n  implicit none\n  type, abstract :: pt\n    integer :: base2\n  end type pt\nend module pm\n",
        ],
        "c.f90": [
            "module cm\n  use pm\n  implicit none\n  type, extends(pt) :: ct\n  contains\n    procedure :: run => crun\n  end type ct\ncontains\n  subroutine crun(self)\n    class(ct) :: self\n    self%base = 1\n  end subroutine crun\nend module cm\n",
            "module cm\n  use pm\n  implicit none\n  type, extends(pt) :: ct\n    integer :: own\n  end type ct\nend module cm\n",
        ],
        "s.f90": [
            "module sm\n  implicit none\n  interface\n    module subroutine ms(a)\n      integer :: a\n    end subroutine ms\n  end interface\nend module sm\n",
            "module sm\n  implicit none\n  integer :: nothing\nend module sm\n",
        ],
        "ss.f90": [
            "submodule (sm) ssm\n  implicit none\ncontains\n  module subroutine ms(a)\n    integer :: a\n    a = 2\n  end subroutine ms\nend submodule ssm\n",
            "submodule (sm) ssm\n  implicit none\ncontains\n  module procedure ms\n    a = 3\n  end procedure ms\nend submodule ssm\n",
        ],
    },
    # an EXTENDS chain of three types in three files: only the top file changes; the bottom type must follow although
    # the file in between is never parsed again
    "W5_chain3": {
        "base.f90": [
            "module base_m\n  implicit none\n  type :: base_t\n    integer :: old_w\n  end type base_t\nend module base_m\n",
            "module base_m\n  implicit none\n  type :: base_t\n    real :: weight\n    integer :: tag\n  end type base_t\nend module base_m\n",
        ],
        "mid.f90": [
            "module mid_m\n  use base_m\n  implicit none\n  type, extends(base_t) :: mid_t\n    integer :: mid_c\n  end type mid_t\nend module mid_m\n",
        ],
        "leaf.f90": [
            "module leaf_m\n  use mid_m\n  implicit none\n  type, extends(mid_t) :: leaf_t\n    integer :: leaf_c\n  end type leaf_t\ncontains\n"
            "  subroutine luse(x)\n    type(leaf_t) :: x\n    x%old_w = 1\n    x%weight = 2.0\n    x%tag = x%mid_c + x%leaf_c\n  end subroutine luse\nend module leaf_m\n",
        ],
    },
    # a module moves from one file to another (the states in which both files define it are not compared: unique
    # top-level names are the statement's precondition)
    "W6_move": {
        "m1.f90": [
            "module mv\n  implicit none\n  integer :: mv_var\nend module mv\n",
            "module m1_other\n  implicit none\n  integer :: o1\nend module m1_other\n",
        ],
        "m2.f90": [
            "module m2_other\n  implicit none\n  integer :: o2\nend module m2_other\n",
            "module mv\n  implicit none\n  integer :: mv_var\n  integer :: mv_new\nend module mv\n",
        ],
        "user.f90": [
            "program pu\n  use mv\n  implicit none\n  mv_var = 1\nend program pu\n",
        ],
    },
    # diagnostics that are computed from the text on every request (line-length limits switched on)
    "W7_limits": {
        "l.f90": [
            "module lm\n  implicit none\n  integer :: a_rather_long_variable_name_one, a_rather_long_variable_name_two\nend module lm\n",
            "module lm\n  implicit none\n  integer :: short_one\n  ! a comment line that is clearly longer than the limit for comment lines\nend module lm\n",
        ],
        "k.f90": [
            "program lk\n  use lm\n  implicit none\n  print *, 'a line of the program that is long enough to exceed the limit'\nend program lk\n",
        ],
    },
    # a file that comes into being after start-up, in a directory that held no source then
    "W8_newdir": {
        "nu.f90": [
            "program nu\n  use nhelper\n  implicit none\n  call nhelp(1)\nend program nu\n",
        ],
        "fresh/nh.f90": [
            None,
            "module nhelper\n  implicit none\ncontains\n  subroutine nhelp(a)\n    integer :: a\n  end subroutine nhelp\nend module nhelper\n",
            "module nhelper\n  implicit none\ncontains\n  subroutine nhelp(a, b)\n    integer :: a\n    real, optional :: b\n  end subroutine nhelp\nend module nhelper\n",
        ],
    },
    # what the links of a file resolve to depends on entities it obtains by INCLUDE (dummy arguments declared in an
    # included file): includes have to be in place before links are resolved, also for the file that was just saved
    "W9_include_args": {
        "isolve.f90": [
            "subroutine isolve(n, tol, res)\n  implicit none\n  include 'isolve_args.f90'\n  res = tol * n\nend subroutine isolve\n",
            "subroutine isolve(n, tol, res)\n  implicit none\n  include 'isolve_args.f90'\n  integer :: extra_local\n  extra_local = n\n  res = tol * n\nend subroutine isolve\n",
        ],
        "isolve_args.f90": [
            "  integer :: n\n  real :: tol\n  real :: res\n",
            "  integer :: n\n  real(8) :: tol\n  real(8) :: res\n",
            "  ! nothing is declared here any more\n",
        ],
        "icall.f90": [
            "program icall\n  implicit none\n  real :: r\n  call isolve(1, 2.0, r)\nend program icall\n",
        ],
    },
    # a type declared in an included file, extended in a file that precedes the including module in workspace order:
    # after the include file is saved, every file's includes have to be refreshed before any file's links
    "W10_include_type": {
        "a_child.f90": [
            "module tchild\n  use tbase\n  implicit none\n  type, extends(base_t) :: child_t\n    integer :: own\n  end type child_t\ncontains\n"
            "  subroutine tuse(c)\n    type(child_t) :: c\n    c%own = c%first\n  end subroutine tuse\nend module tchild\n",
        ],
        "b_base.f90": [
            "module tbase\n  implicit none\n  include 'z_base_decl.f90'\nend module tbase\n",
        ],
        "z_base_decl.f90": [
            "  type :: base_t\n    integer :: first  !< documentation one\n  end type base_t\n",
            "  type :: base_t\n    integer :: first  !< documentation two\n  end type base_t\n",
            "  type :: base_t\n    real :: first  !< documentation two\n    integer :: another\n  end type base_t\n",
        ],
    },
    # a type-bound procedure whose implementation lives in ANOTHER file's module: the procedure is renamed there (or the
    # file goes away); the binding in the file that is never touched must stop answering with the old procedure
    "W11_binding_impl": {
        "t.f90": [
            "module tbm\n  use implm\n  implicit none\n  type :: tb\n    integer :: cnt\n  contains\n    procedure, nopass :: foo => impl\n  end type tb\nend module tbm\n",
        ],
        "i.f90": [
            "module implm\n  implicit none\ncontains\n  subroutine impl()\n    print *, 1\n  end subroutine impl\nend module implm\n",
            "module implm\n  implicit none\ncontains\n  subroutine impl2()\n    print *, 1\n  end subroutine impl2\nend module implm\n",
        ],
    },
    # a user module that shadows an intrinsic module is renamed away (or its file deleted): the USE statement of the other
    # file then names the intrinsic module again
    "W12_shadow_intrinsic": {
        "env.f90": [
            "module iso_fortran_env\n  implicit none\n  integer, parameter :: int32 = 4\n  integer, parameter :: user_only = 1\nend module iso_fortran_env\n",
            "module my_own_env\n  implicit none\n  integer, parameter :: int32 = 4\n  integer, parameter :: user_only = 1\nend module my_own_env\n",
        ],
        "use.f90": [
            "program up\n  use iso_fortran_env, only: int32\n  implicit none\n  integer(int32) :: k\n  k = 1\nend program up\n",
        ],
    },
    # a separate module procedure declared in a module, implemented by a submodule in another file: the implementation
    # is removed from the submodule (or the submodule file goes away)
    "W13_submodule_impl": {
        "m.f90": [
            "module wm\n  implicit none\n  interface\n    module subroutine work(n)\n      integer :: n\n    end subroutine work\n  end interface\nend module wm\n",
        ],
        "sub.f90": [
            "submodule (wm) wsub\n  implicit none\ncontains\n  module subroutine work(n)\n    integer :: n\n    n = 1\n  end subroutine work\nend submodule wsub\n",
            "submodule (wm) wsub\n  implicit none\n  integer :: nothing_here\nend submodule wsub\n",
        ],
    },
    "W4_preproc": {
        "pp.F90": [
            "program pp\n#define LOCAL_PP_ONLY 1\n#ifdef LOCAL_PP_ONLY\n  integer :: seen_local\n#endif\n#include \"hh.h\"\n#ifdef FROM_HH\n  integer :: seen_hh\n#endif\n  include 'decl.f90'\n  from_decl = 1\nend program pp\n",
            "program pp\n#ifdef LOCAL_PP_ONLY\n  integer :: seen_local\n#endif\n#include \"hh.h\"\n#ifdef FROM_HH\n  integer :: seen_hh\n#endif\n  include 'decl.f90'\n  from_decl = 1\nend program pp\n",
        ],
        "inc/q.F90": [
            "module qm\n#include \"hh.h\"\n#ifdef FROM_HH\n  integer :: q_hh\n#endif\nend module qm\n",
            "module qm\n  integer :: q_plain\nend module qm\n",
        ],
        "inc/hh.h": ["#define FROM_HH 1\n"],
        "decl.f90": [
            "  integer :: from_decl\n",
            "  real :: from_decl\n  integer :: more_decl\n",
        ],
    },
}
ARGV = {"W7_limits": ["--max_line_length", "50", "--max_comment_line_length", "40"]}
QUERY = {"W11_binding_impl": ("t.f90", 6, 27), "W12_shadow_intrinsic": ("use.f90", 3, 15), "W13_submodule_impl": ("m.f90", 3, 26),
         "W10_include_type": ("a_child.f90", 9, 15), "W9_include_args": ("icall.f90", 3, 9), "W8_newdir": ("nu.f90", 3, 8), "W7_limits": ("k.f90", 1, 6), "W6_move": ("user.f90", 3, 4), "W5_chain3": ("leaf.f90", 9, 6), "W1_types": ("u.f90", 4, 4), "W2_procs": ("b.f90", 9, 10), "W3_inherit": ("c.f90", 10, 9), "W4_preproc": ("pp.F90", 10, 4)}


def admissible(ws, disk):
    """The statement's precondition: no two files on disk define the same top-level unit."""
    import re as _re

    seen = set()
    for f, v in disk.items():
        if v is None or WORKSPACES[ws][f][v] is None:
            continue
        for m in _re.finditer(r"^\s*(?:module|program|submodule\s*\([^)]*\))\s+(\w+)", WORKSPACES[ws][f][v], _re.M | _re.I):
            n = m.group(1).lower()
            # `module procedure x`, `module subroutine x`, `module [pure ...] function x` are not module statements
            if n in ("procedure", "subroutine", "function", "pure", "impure", "elemental", "recursive", "non_recursive"):
                continue
            if n in seen:
                return False
            seen.add(n)
    return True


def single_line_edit(a: str, b: str):
    """If texts a and b differ in exactly one line (same line count) return the LSP
    content change (a ranged, single-line replacement) turning a into b, else None."""
    la, lb = a.split("\n"), b.split("\n")
    if len(la) != len(lb):
        return None
    diff = [i for i in range(len(la)) if la[i] != lb[i]]
    if len(diff) != 1:
        return None
    i = diff[0]
    x, y = la[i], lb[i]
    p = 0
    while p < min(len(x), len(y)) and x[p] == y[p]:
        p += 1
    q = 0
    while q < min(len(x), len(y)) - p and x[len(x) - 1 - q] == y[len(y) - 1 - q]:
        q += 1
    return {"range": {"start": {"line": i, "character": p}, "end": {"line": i, "character": len(x) - q}}, "text": y[p:len(y) - q]}


# moving a unit between two files takes open + change + save on both: one event more than the common depth
DEPTH_BONUS = {"W6_move": 1}


def initial_disk(ws):
    return {f: (0 if vs[0] is not None else None) for f, vs in WORKSPACES[ws].items()}


class Model:
    """Client/disk side of a history (the environment)."""

    def __init__(self, ws):
        self.ws = ws
        self.disk = initial_disk(ws)
        self.buf = {}  # open file -> version in the editor buffer
        self.dirty = set()

    def enabled(self):
        ev = []
        for f, vs in WORKSPACES[self.ws].items():
            if f.endswith(".h"):
                continue
            on_disk = self.disk[f] is not None
            if f in self.buf:
                ev.append(("save", f))
                ev.append(("close", f))
                ev.append(("delete", f))
                for v in range(len(vs)):
                    if vs[v] is not None and v != self.buf[f]:
                        ev.append(("change", f, v))
                        if single_line_edit(vs[self.buf[f]], vs[v]) is not None:
                            ev.append(("edit", f, v))  # the same step as one ranged single-line edit
            elif on_disk:
                ev.append(("open", f))
            else:
                for v in range(len(vs)):
                    if vs[v] is not None:
                        ev.append(("create", f, v))
        qf = QUERY[self.ws][0]
        if qf in self.buf:
            ev.append(("query", qf))
        return ev

    def apply(self, e):
        k, f = e[0], e[1]
        if k == "open":
            self.buf[f] = self.disk[f]
        elif k in ("change", "edit"):
            self.buf[f] = e[2]
            self.dirty.add(f)
        elif k == "save":
            self.disk[f] = self.buf[f]
            self.dirty.discard(f)
        elif k == "close":
            del self.buf[f]
            self.dirty.discard(f)
        elif k == "create":
            self.disk[f] = e[2]
            self.buf[f] = e[2]
        elif k == "delete":
            self.disk[f] = None
            del self.buf[f]
            self.dirty.discard(f)

    def quiescent(self):
        return not self.dirty

    def key(self):
        return (tuple(sorted(self.disk.items())), tuple(sorted(self.buf.items())), tuple(sorted(self.dirty)))


def write_disk(root, ws, disk):
    for f, v in disk.items():
        p = os.path.join(root, f)
        if v is None:
            if os.path.exists(p):
                os.unlink(p)
        else:
            os.makedirs(os.path.dirname(p), exist_ok=True)
            with open(p, "w") as fh:
                fh.write(WORKSPACES[ws][f][v])


def build(ws, history, root, fake_pool):
    """Fresh directory + fresh server + replay.  Returns (server, model)."""
    m = Model(ws)
    write_disk(root, ws, m.disk)
    s = Server(ARGV.get(ws, []), fake_pool=fake_pool)
    resp, _ = s.initialize(root)
    if "error" in resp:
        raise core.HarnessError(f"initialize failed: {resp['error'].get('message')}")
    for e in history:
        k, f = e[0], e[1]
        path = os.path.join(root, f)
        text = WORKSPACES[ws][f]
        if k == "open":
            s.open(path)
        elif k == "change":
            s.change(path, [{"text": text[e[2]]}])
        elif k == "edit":
            s.change(path, [single_line_edit(text[m.buf[f]], text[e[2]])])
        elif k == "save":
            with open(path, "w") as fh:
                fh.write(text[m.buf[f]])
            s.save(path)
        elif k == "close":
            s.close(path)
        elif k == "create":
            os.makedirs(os.path.dirname(path), exist_ok=True)
            with open(path, "w") as fh:
                fh.write(text[e[2]])
            s.open(path)
        elif k == "delete":
            os.unlink(path)
            s.close(path)
        elif k == "query":
            qf, ln, col = QUERY[ws]
            s.result("textDocument/completion", Server.tdpp(path, ln, col))
            s.result("textDocument/hover", Server.tdpp(path, ln, max(col - 2, 0)))
        m.apply(e)
    return s, m


_FRESH = {}


def fresh_battery(ws, disk, root, fake_pool):
    key = (ws, tuple(sorted(disk.items())), fake_pool)
    if key not in _FRESH:
        for n in os.listdir(root):
            pass
        s = Server(ARGV.get(ws, []), fake_pool=fake_pool)
        s.initialize(root)
        files = {f: WORKSPACES[ws][f][v] for f, v in disk.items() if v is not None and not f.endswith(".h")}
        _FRESH[key] = run_battery(s, root, files, requests=REQUESTS)
    return _FRESH[key]


def _tags(ws, history, k, m, a=None, b=None):
    kinds = sorted({e[0] for e in history})
    empty = (None, [], "<absent>")
    obs = "stale_answer_in_long_lived" if (b in empty and a not in empty) else ("missing_in_long_lived" if a in empty else "different")
    return {"family": "bfs", "ws": ws, "kind": kind_of_key(k), "events": ",".join(kinds), "last": history[-1][0] if history else "",
            "subject": k.split(":")[-1] if ":" in k else k, "obs": obs,
            "deleted_files": ",".join(sorted(f for f, v in m.disk.items() if v is None and WORKSPACES[ws][f][0] is not None)),
            "deleted": any(v is None and WORKSPACES[ws][f][0] is not None for f, v in m.disk.items())}


def expand(job, acc: Acc):
    ws, history, collect, fake_pool = job
    sc = worker_scratch("c10")
    m0 = Model(ws)
    for e in history:
        m0.apply(e)
    succ = []
    for e in m0.enabled():
        sc.wipe()
        root = os.path.join(sc.path, "w")
        os.makedirs(root)
        h2 = list(history) + [e]
        s, m = build(ws, h2, root, fake_pool)
        acc.count("transitions")
        nontriv = None
        if m.quiescent() and not admissible(ws, m.disk):
            acc.count("quiescent_states_with_duplicate_units_not_compared")
            state_dg, _ = server_state(s.srv, root)
        elif m.quiescent():
            acc.count("quiescent_states_checked")
            files = {f: WORKSPACES[ws][f][v] for f, v in m.disk.items() if v is not None and not f.endswith(".h")}
            # the long-lived server is queried through a clone of its state? no: states are rebuilt for every
            # transition, so the battery may freely populate lazy caches of this instance
            dg_before, _ = server_state(s.srv, root)
            got = run_battery(s, root, files, requests=REQUESTS)
            want = fresh_battery(ws, m.disk, root, fake_pool)
            d = diff_batteries(got, want)
            nontriv = (ws, tuple(map(tuple, h2)))
            seen = set()
            for k, a, b in d:
                t = _tags(ws, h2, k, m, a, b)
                if (t["kind"]) in seen:
                    continue
                seen.add(t["kind"])
                acc.violation(Violation("bfs", t, {"ws": ws, "history": [list(x) for x in h2], "fake_pool": fake_pool},
                                        {"fresh_server": b}, {"long_lived_server": a, "query": k},
                                        what=f"{ws} history={h2} differs at {k}"))
            state_dg = dg_before
        else:
            state_dg, _ = server_state(s.srv, root)
        acc.case(nontrivial_key=nontriv, outcome=(ws, m.key()))
        if collect:
            succ.append(((ws, state_dg, m.key()), tuple(h2)))
    acc.succ.extend(succ)
    if len(acc.samples) < 2 and history:
        acc.sample({"workspace": ws, "history": [list(x) for x in history]})


def bfs(ctx, ws, depth, fake_pool):
    total = Acc()
    seen = {("init", ws): ()}
    frontier = [()]
    transitions = 0
    # the initial state itself must agree (fresh vs fresh: determinism self-test of the oracle)
    for d in range(1, depth + 1):
        collect = d < depth
        jobs = [(ws, h, collect, fake_pool) for h in frontier]
        acc = core.pmap(expand, jobs, chunk=1, budget_s=900, label=f"C10/{ws}")
        succ, acc.succ = acc.succ, []
        transitions += acc.counters.get("transitions", 0)
        new = []
        for key, h in sorted(succ, key=lambda x: x[1]):
            if key not in seen:
                seen[key] = h
                new.append(h)
        ctx.log(f"{ws} depth {d}: expanded {len(frontier)}, transitions {acc.counters.get('transitions', 0)}, new states {len(new)}, "
                f"quiescent checked {acc.counters.get('quiescent_states_checked', 0)}, violations {acc.viol_count}")
        total.merge(acc)
        frontier = new
        if not frontier:
            break
    return total, len(seen), transitions


def main(ctx):
    depth = 5 if ctx.quick else 6
    fake_pool = False
    ctx.rule = ("BFS over histories of open/change/save/close/create/delete/query events on 4 workspaces (2-4 files x 2-3 "
                "versions each, chosen so that other files depend on what changes); states merged on heap canon + disk + "
                "buffers; at every quiescent state the battery (symbols, workspace symbols, diagnostics, and definition / "
                "hover / implementation / references / completion / signatureHelp at every identifier) of the long-lived server is compared "
                "with a freshly started server on the same directory. Non-trivial = quiescent state reached by a non-empty "
                "history; distinct by history.")
    ctx.assumptions = ["the server learns about file changes only through the notifications it implements "
                       "(workspace/didChangeWatchedFiles is a no-op in fortls)",
                       "both servers use the real multiprocessing pool at start-up",
                       "sources do not share preprocessor macro names across files (the statement's precondition)"]
    states = trans = 0
    for ws in WORKSPACES:
        if ctx.only and ws not in ctx.only:
            continue
        d_ws = depth + DEPTH_BONUS.get(ws, 0)
        acc, st, tr = bfs(ctx, ws, d_ws, fake_pool)
        ctx.add_family(ws, acc, states=st, depth=d_ws)
        states += st
        trans += tr
    ctx.states, ctx.transitions = states, trans
    ctx.traces_validated = trans
    ctx.coverage_extra["bounds"] = {"history_depth": depth, "workspaces": list(WORKSPACES)}
    ctx.coverage_extra["note"] = "every transition replays the history on the real server; the model (disk/buffer/dirty bookkeeping) only decides which events are enabled and which states are quiescent"


def replay(rec):
    c = rec["case"]
    from ..driver import Scratch

    with Scratch("c10r") as sc:
        root = os.path.join(sc.path, "w")
        os.makedirs(root)
        h = [tuple(x) for x in c["history"]]
        s, m = build(c["ws"], h, root, c.get("fake_pool", False))
        files = {f: WORKSPACES[c["ws"]][f][v] for f, v in m.disk.items() if v is not None and not f.endswith(".h")}
        got = run_battery(s, root, files, requests=REQUESTS)
        s2 = Server(ARGV.get(c["ws"], []), fake_pool=c.get("fake_pool", False))
        s2.initialize(root)
        want = run_battery(s2, root, files, requests=REQUESTS)
        d = diff_batteries(got, want, limit=6)
        return [{"query": k, "long_lived": a, "fresh": b} for k, a, b in d] or None
