"""C12 — completion offers exactly the accessible names matching the typed prefix.

Bounded-exhaustive enumeration over generated workspaces whose user entities all
share the stem `zq` (no intrinsic or keyword starts with it), so every offered
item that starts with the typed prefix is a user entity and the expected label set
is known exactly from the model:
  access variants   how the using scope reaches the library module (direct USE, ONLY
                    list, rename, through a public / private intermediate module, not
                    at all) x kind of using scope (program, module procedure with host
                    declarations, internal procedure)
  contexts          statement body, CALL, USE, USE ... ONLY:, TYPE(, CLASS(, obj%, obj%comp%
  prefixes          every prefix (from the stem on) of every expected name, in lower and
                    upper case, with the rest of the line truncated or left in place
"""
from __future__ import annotations

import os

from .. import core
from ..core import Acc, Violation
from ..driver import Server, worker_scratch

LEVEL = "exploration"

LIB = """module zqmod
  implicit none
  integer :: zqv_pub
  integer, private :: zqv_priv
  type :: zqt_leaf
    integer :: zqc_leaf
  end type zqt_leaf
  type :: zqt_base
    integer :: zqc_one
    real :: zqc_two
  contains
    procedure :: zqb_bind => zqs_impl
  end type zqt_base
  type, extends(zqt_base) :: zqt_ext
    integer :: zqc_three
    type(zqt_leaf) :: zqn_nested
  end type zqt_ext
  interface zqg_gen
    module procedure zqs_sub
  end interface zqg_gen
contains
  subroutine zqs_impl(self)
    class(zqt_base) :: self
  end subroutine zqs_impl
  subroutine zqs_sub(a)
    integer :: a
  end subroutine zqs_sub
  function zqf_fun(a) result(r)
    integer :: a, r
    r = a
  end function zqf_fun
end module zqmod
"""
# public entities of zqmod by class
LIB_VARS = {"zqv_pub"}
LIB_TYPES = {"zqt_leaf", "zqt_base", "zqt_ext"}
LIB_SUBS = {"zqs_impl", "zqs_sub"}
LIB_FUNS = {"zqf_fun"}
LIB_GENERIC = {"zqg_gen"}
LIB_PUBLIC = LIB_VARS | LIB_TYPES | LIB_SUBS | LIB_FUNS | LIB_GENERIC
EXT_MEMBERS = {"zqc_three", "zqn_nested", "zqc_one", "zqc_two", "zqb_bind"}

ACCESS = ["direct", "only_some", "rename", "via_public_mid", "via_private_mid", "none", "rename_clash", "rename_local", "private_lib"]
# rename_clash: the renamed entity's declared name is also the name of a different entity imported from a second module;
# rename_local: ... is also the name of a variable declared in the using scope itself
# a library module whose default accessibility is PRIVATE: only what a PUBLIC statement names is accessible, and that
# includes procedures declared by an unnamed interface block
PRIV = ("module zqpriv\n  implicit none\n  private\n  public :: zqp_pub, zqx_open\n  integer :: zqp_pub\n  integer :: zqp_hid\n"
        "  interface\n    function zqx_open(a) result(r)\n      integer :: a, r\n    end function zqx_open\n"
        "    function zqx_secret(a) result(r)\n      integer :: a, r\n    end function zqx_secret\n"
        "    subroutine zqx_hidsub(a)\n      integer :: a\n    end subroutine zqx_hidsub\n  end interface\n"
        "contains\n  subroutine zqp_hidproc()\n  end subroutine zqp_hidproc\nend module zqpriv\n")
PRIV_PUBLIC = {"zqp_pub": "var", "zqx_open": "fun"}
TWO = "module zqtwo\n  implicit none\n  integer :: zqv_pub\nend module zqtwo\n"
SCOPES = ["program", "module_procedure", "internal_procedure"]


def imported(access):
    """local name -> (class, remote name) imported into the using scope"""
    def cls(n):
        return ("var" if n in LIB_VARS else "type" if n in LIB_TYPES else "sub" if n in LIB_SUBS else "fun" if n in LIB_FUNS else "gen")
    if access in ("direct", "via_public_mid"):
        m = {n: (cls(n), n) for n in LIB_PUBLIC}
        if access == "via_public_mid":
            m["zqv_mid"] = ("var", "zqv_mid")
        return m
    if access == "only_some":
        return {n: (cls(n), n) for n in ("zqv_pub", "zqt_ext", "zqs_sub")}
    if access == "rename":
        return {"zqr_ren": ("var", "zqv_pub"), "zqt_ext": ("type", "zqt_ext")}
    if access == "via_private_mid":
        return {"zqv_mid": ("var", "zqv_mid")}
    if access == "rename_clash":
        return {"zqr_ren": ("var", "zqv_pub"), "zqv_pub": ("var", "zqtwo::zqv_pub")}
    if access == "rename_local":
        return {"zqr_ren": ("var", "zqv_pub")}
    if access == "private_lib":
        return {n: (c, n) for n, c in PRIV_PUBLIC.items()}
    return {}


def build(access, scope):
    files = {"zqmod.f90": LIB}
    use = {"direct": "use zqmod", "only_some": "use zqmod, only: zqv_pub, zqt_ext, zqs_sub", "rename": "use zqmod, only: zqr_ren => zqv_pub, zqt_ext",
           "via_public_mid": "use zqmid", "via_private_mid": "use zqmid", "none": None,
           "rename_clash": "use zqmod, only: zqr_ren => zqv_pub\n  use zqtwo, only: zqv_pub",
           "rename_local": "use zqmod, only: zqr_ren => zqv_pub", "private_lib": "use zqpriv"}[access]
    if access == "private_lib":
        files["zqpriv.f90"] = PRIV
    if access == "rename_clash":
        files["zqtwo.f90"] = TWO
    if access in ("via_public_mid", "via_private_mid"):
        files["zqmid.f90"] = ("module zqmid\n  use zqmod\n  implicit none\n" + ("  private\n  public :: zqv_mid\n" if access == "via_private_mid" else "")
                              + "  integer :: zqv_mid\nend module zqmid\n")
    imp = imported(access)
    has_ext = "zqt_ext" in imp
    names = {n: c for n, (c, _) in imp.items()}
    lines = []
    marks = {}  # context -> (line index, text before cursor)

    def probe(ctx, before, after=""):
        marks[ctx] = (len(lines), before, after)
        lines.append(before + "zq" + after)

    u = ("  " + use) if use else None
    if scope == "program":
        lines.append("program zqp_main")
        if u:
            lines.extend(u.split("\n"))
        probe("use_only", "  use zqmod, only: ")
        if access == "private_lib":
            probe("use_only_priv", "  use zqpriv, only: ")
        probe("use", "  use ")
        lines.append("  implicit none")
        lines.append("  integer :: zql_var")
        names["zql_var"] = "var"
        if access == "rename_local":
            lines.append("  integer :: zqv_pub")
            names["zqv_pub"] = "var"
        if has_ext:
            lines.append("  type(zqt_ext) :: zqo_obj")
            names["zqo_obj"] = "var"
        probe("type_paren", "  type(")
        probe("class_paren", "  class(")
        probe("body", "  zql_var = ")
        probe("body_rest", "  zql_var = ", " + 1")
        # statements whose first word merely starts like a keyword (endpoint = ..., import_count = ...)
        lines.insert(len(lines) - 2, "  integer :: endpoint, import_count, enddo_x, contains_x, use_x")
        for k2 in marks:
            marks[k2] = (marks[k2][0] + 1, marks[k2][1], marks[k2][2]) if marks[k2][0] >= len(lines) - 3 else marks[k2]
        for kw in ("endpoint", "import_count", "enddo_x", "contains_x", "use_x"):
            probe("body_" + kw, f"  {kw} = ")
        probe("call", "  call ")
        if has_ext:
            probe("member", "  zqo_obj%")
            probe("member2", "  zqo_obj%zqn_nested%")
        lines.append("contains")
        lines.append("  subroutine zqi_inner()")
        lines.append("  end subroutine zqi_inner")
        lines.append("end program zqp_main")
        names["zqi_inner"] = "sub"
        names["zqp_main"] = "unit"
    else:
        lines.append("module zqu_user")
        if u:
            lines.extend(u.split("\n"))
        lines.append("  implicit none")
        lines.append("  integer :: zqh_host")
        lines.append("contains")
        lines.append("  subroutine zqu_proc(zqa_arg)")
        lines.append("    integer :: zqa_arg")
        if access == "rename_local":
            lines.append("    integer :: zqv_pub")
            names["zqv_pub"] = "var"
        lines.append("    integer :: zql_var")
        names.update({"zqh_host": "var", "zqa_arg": "var", "zql_var": "var", "zqu_proc": "sub", "zqu_user": "unit"})
        if has_ext:
            lines.append("    type(zqt_ext) :: zqo_obj")
            names["zqo_obj"] = "var"
        if scope == "module_procedure":
            probe("type_paren", "    type(")
            probe("body", "    zql_var = ")
            probe("body_rest", "    zql_var = ", " + 1")
            probe("call", "    call ")
            if has_ext:
                probe("member", "    zqo_obj%")
                probe("member2", "    zqo_obj%zqn_nested%")
            lines.append("  contains")
            lines.append("    subroutine zqi_inner()")
            lines.append("    end subroutine zqi_inner")
            names["zqi_inner"] = "sub"
        else:
            lines.append("    call zqi_inner()")
            lines.append("  contains")
            lines.append("    subroutine zqi_inner()")
            lines.append("      integer :: zqk_deep")
            names["zqi_inner"] = "sub"
            inner = dict(names)
            inner["zqk_deep"] = "var"
            marks["__inner_names__"] = inner
            probe("body", "      zqk_deep = ")
            probe("call", "      call ")
            if has_ext:
                probe("member", "      zqo_obj%")
            lines.append("    end subroutine zqi_inner")
        lines.append("  end subroutine zqu_proc")
        lines.append("end module zqu_user")
    files["zquser.f90"] = "\n".join(lines) + "\n"
    return files, names, marks


def expected(ctx, names, access):
    """(required labels, optional labels) for a context; everything else starting with the prefix is forbidden."""
    req, opt = set(), set()
    if ctx in ("body", "body_rest") or ctx.startswith("body_"):
        for n, c in names.items():
            if c in ("var", "sub", "fun", "gen", "type"):
                (req if c != "sub" else opt).add(n)     # subroutine names in an expression: tolerated, not required
            # program-unit names: tolerated
            if c == "unit":
                opt.add(n)
    elif ctx == "call":
        for n, c in names.items():
            if c in ("sub", "gen"):
                req.add(n)
            elif c in ("fun",) or n == "zqo_obj":
                opt.add(n)   # functions, and an object whose type has bound procedures (call obj%proc): tolerated
    elif ctx == "use":
        req = {"zqmod"} | ({"zqmid"} if access in ("via_public_mid", "via_private_mid") else set()) | \
            ({"zqtwo"} if access == "rename_clash" else set()) | ({"zqpriv"} if access == "private_lib" else set())
        opt = {"zqu_user"}
    elif ctx == "use_only":
        req = set(LIB_PUBLIC)
    elif ctx == "use_only_priv":
        req = set(PRIV_PUBLIC)
    elif ctx in ("type_paren", "class_paren"):
        req = {n for n, c in names.items() if c == "type"}
    elif ctx == "member":
        req = set(EXT_MEMBERS)
    elif ctx == "member2":
        req = {"zqc_leaf"}
    return req, opt


def run_case(job, acc: Acc):
    access, scope = job
    files, names, marks = build(access, scope)
    inner_names = marks.pop("__inner_names__", None)
    sc = worker_scratch("c12")
    sc.wipe()
    root = os.path.realpath(os.path.join(sc.path, "w"))
    os.makedirs(root)
    for n, t in files.items():
        with open(os.path.join(root, n), "w") as f:
            f.write(t)
    s = Server([])
    s.initialize(root)
    path = os.path.join(root, "zquser.f90")
    s.open(path)
    base_lines = files["zquser.f90"].split("\n")
    # Every context is asked twice in the one session: first as the history left it, then again after completions in
    # *other* contexts (an entity name in a declaration, an accessibility list, IMPORT, PROCEDURE(...)), whose answers
    # are not judged: what the server computes for one request must not change the answer to a later one.
    for phase in ("first", "after_other_contexts"):
        if phase == "after_other_contexts":
            body = marks.get("body") or next(iter(marks.values()))
            for other in ("  integer :: zq", "  private :: zq", "  public zq", "  import zq", "  import :: zq", "  procedure(zq", "  class(zq"):
                new = list(base_lines)
                new[body[0]] = other
                s.change(path, [{"text": "\n".join(new)}])
                s.result("textDocument/completion", Server.tdpp(path, body[0], len(other)))
                acc.count("unjudged_completions_in_other_contexts")
        _ask_contexts(s, path, base_lines, marks, inner_names, names, scope, access, files, acc, phase)
    if len(acc.samples) < 2:
        acc.sample({"access": access, "scope": scope, "user_file": files["zquser.f90"]})


def _ask_contexts(s, path, base_lines, marks, inner_names, names, scope, access, files, acc, phase):
    for ctx, (ln, before, after) in marks.items():
        scope_names = inner_names if (inner_names and scope == "internal_procedure") else names
        req_all, opt_all = expected(ctx, scope_names, access)
        universe = req_all | opt_all
        prefixes = {"zq"}
        for n in universe:
            for k in range(3, len(n) + 1):
                prefixes.add(n[:k])
        for pref in sorted(prefixes):
            for typed in (pref, pref.upper()):
                new = list(base_lines)
                new[ln] = before + typed + after
                s.change(path, [{"text": "\n".join(new)}])
                r = s.result("textDocument/completion", Server.tdpp(path, ln, len(before) + len(typed)))
                acc.count("completions")
                labels = {c["label"].lower() for c in r} if isinstance(r, list) else set()
                mine = {l for l in labels if l.startswith("zq")}
                foreign = {l for l in labels if not l.startswith(pref.lower())}
                req = {n for n in req_all if n.startswith(pref)}
                opt = {n for n in opt_all if n.startswith(pref)}
                missing = req - mine
                extra = mine - req - opt
                acc.case(nontrivial_key=(access, scope, ctx, typed, phase) if req else None, outcome=(ctx, len(req)))
                case = {"access": access, "scope": scope, "context": ctx, "typed": typed, "files": files, "line": ln, "phase": phase}
                tags = {"family": "completion", "context": ctx, "access": access, "scope": scope, "upper": typed != pref}
                if isinstance(r, tuple):
                    acc.violation(Violation("completion", {**tags, "obs": "error", "class": ""}, case, sorted(req), r, what=f"{access}/{scope}/{ctx} {typed!r}: {r}"))
                    continue
                if missing:
                    classes = sorted({scope_names.get(n, "lib") if n in scope_names else ("type" if n in LIB_TYPES else "member") for n in missing})
                    acc.violation(Violation("completion", {**tags, "obs": "missing", "class": ",".join(classes)}, case, sorted(req), sorted(mine),
                                            what=f"{access}/{scope}/{ctx} typed {typed!r}: missing {sorted(missing)}"))
                if extra:
                    acc.violation(Violation("completion", {**tags, "obs": "extra", "class": ""}, case, sorted(req | opt), sorted(mine),
                                            what=f"{access}/{scope}/{ctx} typed {typed!r}: offers inaccessible/non-matching {sorted(extra)}"))
                if foreign and len(pref) >= 2:
                    acc.violation(Violation("completion", {**tags, "obs": "not_matching_prefix", "class": ""}, case, f"labels starting with {pref}", sorted(foreign)[:5],
                                            what=f"{access}/{scope}/{ctx} typed {typed!r}: offers {sorted(foreign)[:3]}"))


CHAIN = {
    "zqc_old.f90": "module zqm_old\n  implicit none\n  type :: zqt_old\n    integer :: zqc_o1\n  contains\n    procedure :: zqb_o => zqs_o\n  end type zqt_old\ncontains\n  subroutine zqs_o(self)\n    class(zqt_old) :: self\n  end subroutine zqs_o\nend module zqm_old\n",
    "zqc_mid.f90": "module zqm_mid\n  use zqm_old\n  implicit none\n  type, extends(zqt_old) :: zqt_mid\n    integer :: zqc_m1\n  end type zqt_mid\nend module zqm_mid\n",
    "zqc_young.f90": "module zqm_young\n  use zqm_mid\n  implicit none\n  type, extends(zqt_mid) :: zqt_young\n    integer :: zqc_y1\n  end type zqt_young\nend module zqm_young\n",
    "zqc_user.f90": "program zqp_chain\n  use zqm_young\n  implicit none\n  type(zqt_young) :: zqy_obj\n  zqy_obj%zq\nend program zqp_chain\n",
}
CHAIN_MEMBERS = {"zqc_o1", "zqb_o", "zqc_m1", "zqc_y1"}


def chain_case(order, acc: Acc):
    """A three-level EXTENDS chain over three files, indexed in a scripted file order (the youngest type's file
    first / last / in the middle): obj% must offer the members of all levels."""
    sc = worker_scratch("c12")
    sc.wipe()
    root = os.path.realpath(os.path.join(sc.path, "w"))
    os.makedirs(root)
    for n, t in CHAIN.items():
        with open(os.path.join(root, n), "w") as f:
            f.write(t)
    s = Server([])
    real = s.srv._get_source_files

    def scripted():
        lst = sorted(real())
        rank = {n: i for i, n in enumerate(order)}
        return sorted(lst, key=lambda p: rank[os.path.basename(p)])

    s.srv._get_source_files = scripted
    s.initialize(root)
    path = os.path.join(root, "zqc_user.f90")
    for typed in ("zq", "zqc", "zqc_", "zqb", "ZQC_O"):
        lines = CHAIN["zqc_user.f90"].split("\n")
        lines[4] = "  zqy_obj%" + typed
        s.open(path)
        s.change(path, [{"text": "\n".join(lines)}])
        r = s.result("textDocument/completion", Server.tdpp(path, 4, len(lines[4])))
        labels = {c["label"].lower() for c in r} if isinstance(r, list) else set()
        want = {m for m in CHAIN_MEMBERS if m.startswith(typed.lower())}
        acc.case(nontrivial_key=("chain", tuple(order), typed), outcome=("chain", len(want)))
        acc.count("completions")
        if labels != want:
            acc.violation(Violation("completion", {"family": "completion", "context": "member_chain3", "access": "chain", "scope": "program",
                                                   "upper": typed != typed.lower(), "obs": "missing" if want - labels else "extra", "class": "member"},
                                    {"order": list(order), "typed": typed, "context": "member_chain3"}, sorted(want), sorted(labels),
                                    what=f"3-level chain, file order {order}: typed {typed!r}: expected {sorted(want)}, got {sorted(labels)}"))


CLASH = {
    "zqclash.f90": "module zqm_clash\n  implicit none\n  type :: zqpos\n    integer :: zqc_px, zqc_py\n  end type zqpos\n  type :: zqvel\n    integer :: zqc_vx\n  end type zqvel\n"
                   "  type :: zqbody\n    type(zqpos) :: zqpos\n    integer :: zqvel\n    type(zqvel) :: zqv\n  contains\n    procedure :: zqb_show => zqs_show\n  end type zqbody\n"
                   "contains\n  subroutine zqs_show(self)\n    class(zqbody) :: self\n    self%zqpos%zq\n  end subroutine zqs_show\nend module zqm_clash\n",
    "zqclash_user.f90": "program zqp_clash\n  use zqm_clash\n  implicit none\n  type(zqbody) :: zqb\n  type(zqbody) :: zqarr(3)\n  zqb%zq\nend program zqp_clash\n",
}
CLASH_PROBES = [  # (file, line index, text before the cursor, expected member names)
    ("zqclash_user.f90", 5, "  zqb%zqpos%", {"zqc_px", "zqc_py"}),
    ("zqclash_user.f90", 5, "  zqb%zqv%", {"zqc_vx"}),
    ("zqclash_user.f90", 5, "  zqarr(2)%zqpos%", {"zqc_px", "zqc_py"}),
    ("zqclash_user.f90", 5, "  zqb%", {"zqpos", "zqvel", "zqv", "zqb_show"}),
    ("zqclash.f90", 18, "    self%zqpos%", {"zqc_px", "zqc_py"}),
    ("zqclash.f90", 18, "    self%zqv%", {"zqc_vx"}),
]


def clash_case(k, acc: Acc):
    """Components live in a name space of their own: a component may be named like a type (even like its own)."""
    fname, ln, before, want_all = CLASH_PROBES[k]
    sc = worker_scratch("c12")
    sc.wipe()
    root = os.path.realpath(os.path.join(sc.path, "w"))
    os.makedirs(root)
    for n, t in CLASH.items():
        with open(os.path.join(root, n), "w") as f:
            f.write(t)
    s = Server([])
    s.initialize(root)
    path = os.path.join(root, fname)
    s.open(path)
    lines = CLASH[fname].split("\n")
    for typed in ("zq", "zqc", "ZQC_", "zqv", "zqp"):
        new = list(lines)
        new[ln] = before + typed
        s.change(path, [{"text": "\n".join(new)}])
        r = s.result("textDocument/completion", Server.tdpp(path, ln, len(new[ln])))
        labels = {c["label"].lower() for c in r} if isinstance(r, list) else set()
        want = {m for m in want_all if m.startswith(typed.lower())}
        acc.case(nontrivial_key=("clash", k, typed) if want else None, outcome=("clash", len(want)))
        acc.count("completions")
        if labels != want:
            acc.violation(Violation("completion", {"family": "completion", "context": "member_name_clash", "access": "clash", "scope": fname,
                                                   "upper": typed != typed.lower(), "obs": "missing" if want - labels else "extra", "class": "member"},
                                    {"probe": k, "typed": typed, "context": "member_name_clash", "line": new[ln]}, sorted(want), sorted(labels),
                                    what=f"{new[ln].strip()!r}: expected {sorted(want)}, got {sorted(labels)}"))


CONSTRUCTS_USER = """module zqu
  use zqmod
  implicit none
  type :: zqt_deep
    type(zqt_ext) :: zqd_ext
  end type zqt_deep
contains
  function zqf_here(zqa_x) result(zqr_res)
    integer :: zqa_x, zqr_res
    type(zqt_deep) :: zqo_deep
    type(zqt_deep) :: zqo_arr(3)
    integer :: zql_before
    zql_before = 1
    block
      integer :: zqk_inblock
      zql_before = 2
    end block
    associate (zqs_assoc => zqo_deep%zqd_ext)
      zql_before = 3
    end associate
    zql_before = 4
  end function zqf_here
end module zqu
"""
_CF = {"zqa_x": "var", "zqr_res": "var", "zqo_deep": "var", "zqo_arr": "var", "zql_before": "var", "zqf_here": "fun", "zqt_deep": "type"}
_EXT = {"zqb_bind", "zqc_one", "zqc_three", "zqc_two", "zqn_nested"}
# (line index of the statement that is replaced, text before the cursor, extra names visible there, member set or None)
_CL = CONSTRUCTS_USER.split("\n")
_L1, _L2, _L3, _L4 = (_CL.index(x) for x in ("    zql_before = 1", "      zql_before = 2", "      zql_before = 3", "    zql_before = 4"))
CONSTRUCT_PROBES = [
    (_L2, "      zql_before = ", {"zqk_inblock"}, None),
    (_L2, "      if (zql_before > ", {"zqk_inblock"}, None),
    (_L3, "      zql_before = ", {"zqs_assoc"}, None),
    (_L3, "      zql_before = zqs_assoc%", set(), _EXT),
    (_L3, "      zql_before = zqs_assoc%zqn_nested%", set(), {"zqc_leaf"}),
    (_L4, "    zql_before = ", set(), None),
    (_L1, "    zql_before = ", set(), None),
    (_L4, "    zql_before = zqo_deep%zqd_ext%zqn_nested%", set(), {"zqc_leaf"}),
    (_L4, "    zql_before = zqo_arr(2)%zqd_ext%", set(), _EXT),
    (_L4, "    zql_before = zqo_arr(zqa_x)%", set(), {"zqd_ext"}),
    (_L4, "    zqr_res = zqo_deep % zqd_ext % ", set(), _EXT),
    (_L4, "    do zql_before = 1, ", set(), None),
    (_L4, "    if (", set(), None),
    (_L4, "    print *, ", set(), None),
    (_L4, "    zql_before = zqa_x + zqf_fun(", set(), None),
    (_L4, "    zql_before = zqo_arr(", set(), None),
]


def constructs_case(k, acc: Acc):
    """Names that exist only inside a construct (BLOCK locals, ASSOCIATE names) are offered there and nowhere else;
    member chains of depth 3, through array elements and with blanks around '%'; statement kinds other than assignment."""
    ln, before, extra, members = CONSTRUCT_PROBES[k]
    sc = worker_scratch("c12")
    sc.wipe()
    root = os.path.realpath(os.path.join(sc.path, "w"))
    os.makedirs(root)
    files = {"zqmod.f90": LIB, "zquser.f90": CONSTRUCTS_USER}
    for n, t in files.items():
        with open(os.path.join(root, n), "w") as f:
            f.write(t)
    s = Server([])
    s.initialize(root)
    path = os.path.join(root, "zquser.f90")
    s.open(path)
    lines = CONSTRUCTS_USER.split("\n")
    if members is None:
        names = dict(_CF)
        names.update({n: "var" for n in extra})
        names.update({n: ("var" if n in LIB_VARS else "type" if n in LIB_TYPES else "sub" if n in LIB_SUBS else "fun" if n in LIB_FUNS else "gen") for n in LIB_PUBLIC})
        req_all = {n for n, c in names.items() if c != "sub"}
        opt_all = {n for n, c in names.items() if c == "sub"} | {"zqu"}
    else:
        req_all, opt_all = set(members), set()
    prefixes = {"zq"}
    for n in req_all | opt_all | {"zqk_inblock", "zqs_assoc"}:
        for j in range(3, len(n) + 1):
            prefixes.add(n[:j])
    for pref in sorted(prefixes):
        for typed in (pref, pref.upper()):
            new = list(lines)
            new[ln] = before + typed
            s.change(path, [{"text": "\n".join(new)}])
            r = s.result("textDocument/completion", Server.tdpp(path, ln, len(new[ln])))
            labels = {c["label"].lower() for c in r} if isinstance(r, list) else set()
            mine = {l for l in labels if l.startswith("zq")}
            req = {n for n in req_all if n.startswith(pref)}
            opt = {n for n in opt_all if n.startswith(pref)}
            acc.case(nontrivial_key=("constructs", k, typed) if req else None, outcome=("constructs", len(req)))
            acc.count("completions")
            tags = {"family": "completion", "context": "constructs", "access": "direct", "scope": "function", "upper": typed != pref}
            case = {"probe": k, "typed": typed, "context": "constructs", "line": new[ln]}
            if isinstance(r, tuple):
                acc.violation(Violation("completion", {**tags, "obs": "error", "class": ""}, case, sorted(req), r, what=f"{new[ln].strip()!r}: {r}"))
            elif (req - mine) or (mine - req - opt):
                acc.violation(Violation("completion", {**tags, "obs": "missing" if req - mine else "extra", "class": "construct"}, case, sorted(req), sorted(mine),
                                        what=f"{new[ln].strip()!r}: missing {sorted(req - mine)}, not accessible there {sorted(mine - req - opt)}"))


NESTED_ONLY = """module zqn_host
  use zqmod, only: zqv_pub
  implicit none
contains
  subroutine zqn_inner()
    use zqmod, only: zqf_fun
    integer :: zql_a
    zql_a = zq
  end subroutine zqn_inner
  subroutine zqn_other()
    integer :: zql_b
    zql_b = zq
  end subroutine zqn_other
  subroutine zqn_third()
    use zqmod, only: zqr_ren => zqt_leaf
    integer :: zql_c
    zql_c = zq
  end subroutine zqn_third
end module zqn_host
"""
NESTED_EXPECT = {"inner": ({"zqv_pub", "zqf_fun", "zql_a"}, 7), "other": ({"zqv_pub", "zql_b"}, 11), "third": ({"zqv_pub", "zqr_ren", "zql_c"}, 16)}
NESTED_OPT = {"zqn_inner", "zqn_other", "zqn_third", "zqn_host"}


def nested_only_case(seq, acc: Acc):
    """One module is named by USE statements with different ONLY lists in a host and in two of its procedures: what a
    scope is offered depends on its own and its host's statements only - not on the scopes asked before in the session.
    The typed text is in the file from the start (nothing is re-parsed between the requests)."""
    sc = worker_scratch("c12")
    sc.wipe()
    root = os.path.realpath(os.path.join(sc.path, "w"))
    os.makedirs(root)
    for n, t in {"zqmod.f90": LIB, "zqnested.f90": NESTED_ONLY}.items():
        with open(os.path.join(root, n), "w") as f:
            f.write(t)
    s = Server([])
    s.initialize(root)
    path = os.path.join(root, "zqnested.f90")
    lines = NESTED_ONLY.split("\n")
    for k, where in enumerate(seq):
        want, ln = NESTED_EXPECT[where]
        r = s.result("textDocument/completion", Server.tdpp(path, ln, len(lines[ln])))
        labels = {c["label"].lower() for c in r} if isinstance(r, list) else set()
        mine = {l for l in labels if l.startswith("zq")}
        acc.case(nontrivial_key=("nested_only", seq, k), outcome=("nested_only", where, len(want)))
        acc.count("completions")
        if (want - mine) or (mine - want - NESTED_OPT):
            acc.violation(Violation("completion", {"family": "completion", "context": "nested_only", "access": "only_lists_in_host_and_procedures", "scope": where,
                                                   "upper": False, "obs": "missing" if want - mine else "extra", "class": "use_associated"},
                                    {"sequence": list(seq), "step": k, "context": "nested_only"}, sorted(want), sorted(mine),
                                    what=f"scopes asked {list(seq[:k + 1])}: in {where} expected {sorted(want)}, offered {sorted(mine)}"))
            return


SUBORDER = {
    "zqsub_a_impl.f90": "submodule (zqsub_par) zqsub_impl\n  implicit none\ncontains\n  module procedure zqs_proc\n    integer :: zql_local\n    zql_local = zq\n  end procedure zqs_proc\n"
                        "  module procedure zqf_res\n    zqr_out = zq\n  end procedure zqf_res\nend submodule zqsub_impl\n",
    "zqsub_b_mod.f90": "module zqsub_par\n  implicit none\n  integer :: zqv_modvar\n  interface\n    module subroutine zqs_proc(zqa_first, zqa_second)\n      integer :: zqa_first\n      real :: zqa_second\n"
                       "    end subroutine zqs_proc\n    module function zqf_res(zqa_in) result(zqr_out)\n      real :: zqa_in, zqr_out\n    end function zqf_res\n  end interface\nend module zqsub_par\n",
}


def suborder_case(order, acc: Acc):
    """A separate module procedure in the short form (`module procedure name`) takes its dummy arguments and result
    from the interface body in the parent module - in whatever order the two files are indexed."""
    sc = worker_scratch("c12")
    lines = SUBORDER["zqsub_a_impl.f90"].split("\n")
    for ln, want_all in ((5, {"zqa_first", "zqa_second", "zql_local", "zqv_modvar", "zqf_res"}), (8, {"zqa_in", "zqr_out", "zqv_modvar", "zqf_res"})):
        for typed in ("zq", "zqa", "zqa_", "zqr", "ZQA_F"):
            new = list(lines)
            new[ln] = new[ln][:new[ln].index("= ") + 2] + typed
            # the typed text is in the file from the start: the question is asked in the state start-up left behind
            # (a didChange would parse and link the submodule again, after its parent)
            sc.wipe()
            root = os.path.realpath(os.path.join(sc.path, "w"))
            os.makedirs(root)
            for n, t in SUBORDER.items():
                with open(os.path.join(root, n), "w") as f:
                    f.write("\n".join(new) if n == "zqsub_a_impl.f90" else t)
            s = Server([])
            real = s.srv._get_source_files
            rank = {n: i for i, n in enumerate(order)}
            s.srv._get_source_files = lambda real=real: sorted(real(), key=lambda p: rank[os.path.basename(p)])
            s.initialize(root)
            path = os.path.join(root, "zqsub_a_impl.f90")
            r = s.result("textDocument/completion", Server.tdpp(path, ln, len(new[ln])))
            labels = {c["label"].lower() for c in r} if isinstance(r, list) else set()
            mine = {l for l in labels if l.startswith("zq")}
            req = {m for m in want_all if m.startswith(typed.lower())}
            opt = {m for m in ("zqs_proc", "zqsub_par", "zqsub_impl") if m.startswith(typed.lower())}
            acc.case(nontrivial_key=("suborder", tuple(order), ln, typed) if req else None, outcome=("suborder", len(req)))
            acc.count("completions")
            if (req - mine) or (mine - req - opt):
                acc.violation(Violation("completion", {"family": "completion", "context": "module_procedure_body", "access": "submodule", "scope": "first:" + order[0],
                                                       "upper": typed != typed.lower(), "obs": "missing" if req - mine else "extra", "class": "dummy"},
                                        {"order": list(order), "typed": typed, "context": "module_procedure_body", "line": new[ln]}, sorted(req), sorted(mine),
                                        what=f"file order {list(order)}: {new[ln].strip()!r}: expected {sorted(req)}, got {sorted(mine)}"))


def main(ctx):
    ctx.rule = ("9 access variants x 3 using scopes; per workspace up to 9 contexts (body, body with text after the cursor, CALL, "
                "USE, USE ONLY:, TYPE(, CLASS(, obj%, obj%comp%) x every prefix from the stem 'zq' up to the full name of every "
                "expected entity x lower/upper case. Expected label set known from the model; subroutine names in expressions, "
                "functions after CALL and program-unit names are tolerated (neither required nor forbidden). Non-trivial = at "
                "least one name expected; distinct by (variant, scope, context, typed text).")
    ctx.assumptions = ["all user entities share the stem 'zq' that no intrinsic or keyword starts with, so offered items "
                       "starting with the prefix are user entities",
                       "labels are compared case-insensitively"]
    jobs = [(a, sc) for a in ACCESS for sc in SCOPES]
    acc = core.pmap(run_case, jobs, chunk=1, budget_s=300, label="C12")
    import itertools

    cacc = core.pmap(chain_case, list(itertools.permutations(sorted(CHAIN))), chunk=1, budget_s=120, label="C12/chain")
    acc.merge(cacc)
    kacc = core.pmap(clash_case, list(range(len(CLASH_PROBES))), chunk=1, budget_s=120, label="C12/clash")
    acc.merge(kacc)
    oacc = core.pmap(suborder_case, [tuple(sorted(SUBORDER)), tuple(sorted(SUBORDER, reverse=True))], chunk=1, budget_s=120, label="C12/suborder")
    acc.merge(oacc)
    import itertools as _it

    seqs = [q for n in (1, 2, 3) for q in _it.product(("other", "inner", "third"), repeat=n)]
    eacc = core.pmap(nested_only_case, seqs, chunk=2, budget_s=120, label="C12/nested_only")
    acc.merge(eacc)
    nacc = core.pmap(constructs_case, list(range(len(CONSTRUCT_PROBES))), chunk=1, budget_s=120, label="C12/constructs")
    acc.merge(nacc)
    ctx.add_family("completion", acc)


def replay(rec):
    c = rec["case"]
    acc = Acc()
    if c.get("context") == "nested_only":
        nested_only_case(tuple(c["sequence"]), acc)
        return [v.to_json("C12") for v in acc.violations] or None
    if c.get("context") == "constructs":
        constructs_case(c["probe"], acc)
        return [v.to_json("C12") for v in acc.violations if v.case["typed"] == c["typed"]] or None
    if c.get("context") == "member_chain3":
        chain_case(tuple(c["order"]), acc)
        return [v.to_json("C12") for v in acc.violations if v.case["typed"] == c["typed"]] or None
    run_case((c["access"], c["scope"]), acc)
    return [v.to_json("C12") for v in acc.violations if v.case["context"] == c["context"] and v.case["typed"] == c["typed"]] or None
