"""C09 — every positional request is total; every returned range lies in its document.

Bounded-exhaustive enumeration (document x position x method) on a live in-process
server that indexed the repository's sample sources as one workspace:
  corpus      every sample source; positions = start / interior / end of every token,
              one past the end of every line, the two lines past the end of file
              (quick: a 14-file subset; thorough: all files, and every column of a subset)
  mutants     the same requests on line-level mutants (half-typed documents) of a subset
  intrinsics  one generated document per bundled intrinsic procedure / keyword / module
              member with that name under the cursor (expression, CALL, USE ... ONLY)
Oracle: a `result` (never `error`) that validates against the method's shape, and every
range it contains addresses an existing place of its target document.  The same range
check is applied to every publishDiagnostics emitted when a document is opened.
"""
from __future__ import annotations

import os
import re
import shutil

from .. import core, refdoc, shapes
from ..core import Acc, Violation
from ..driver import Server, clear_caches, server_on, worker_scratch

LEVEL = "exploration"

METHODS = ["textDocument/hover", "textDocument/definition", "textDocument/implementation", "textDocument/references",
           "textDocument/documentHighlight", "textDocument/rename", "textDocument/signatureHelp",
           "textDocument/completion", "textDocument/codeAction"]
TOKEN = re.compile(r"[A-Za-z_]\w*|\d+(?:\.\d*)?|\"[^\"]*\"|'[^']*'|\S")
SRC = re.compile(r"\.(f|f90|f08|F90|F|f03|F03|for|fpp)$")
QUICK_FILES = ["subdir/test_free.f90", "test_prog.f08", "subdir/test_fixed.f", "pp/preproc.F90", "imp/import.f90",
               "hover/functions.f90", "hover/parameters.f90", "signature/help.f90", "rename/test_rename_nested.f90",
               "completion/test_vis_mod_completion.f90", "subdir/test_submodule.f90", "docs/test_doxygen.f90",
               "diag/test_function.f90", "test_block.f08"]


def corpus_root():
    return os.path.join(core.REPO, "test", "test_source")


def list_sources():
    base = corpus_root()
    out = []
    for dp, dn, fn in os.walk(base):
        for f in sorted(fn):
            if SRC.search(f):
                out.append(os.path.relpath(os.path.join(dp, f), base))
    return sorted(out)


# ---------------------------------------------------------------- server
_S = {}


def _server():
    s = _S.get("s")
    if s is None:
        sc = worker_scratch("c09")
        sc.wipe()
        root = os.path.join(sc.path, "ws")
        shutil.copytree(corpus_root(), root, ignore=shutil.ignore_patterns("*.log"))
        # the corpus configuration refers to absolute/foreign paths; keep only what matters for indexing
        s = server_on(root, ["--enable_code_actions", "--incremental_sync"])
        _S["s"], _S["root"] = s, root
    return s


def _site(err):
    tb = ((err.get("data") or {}).get("traceback") or "")
    site = "?"
    for m in re.finditer(r'File "[^"]*/fortls/([^"]+)", line \d+, in (\w+)', tb):
        site = f"{os.path.basename(m.group(1))}:{m.group(2)}"
    last = tb.strip().splitlines()[-1] if tb.strip() else str(err.get("message"))
    return site, last.split(":")[0][:40]


def doc_lines(s, uri_or_path):
    from fortls.jsonrpc import path_from_uri

    path = path_from_uri(uri_or_path) if uri_or_path.startswith("file://") else uri_or_path
    f = s.srv.workspace.get(path)
    if f is not None:
        return list(f.contents_split)
    try:
        with open(path, encoding="utf-8", errors="replace") as fh:
            return re.split(r"\r\n|\n|\r", fh.read().replace("\t", " "))
    except OSError:
        return None


def check_result(s, family, method, result, uri, case, acc, extra_tags=None, view=None):
    """Shape + range validity of one result.  `view(uri)` gives the lines of the target document as the client
    sees it (open: the synchronised text, closed: the file); default is the text the server holds."""
    tags0 = {"family": family, "method": method.split("/")[-1], **(extra_tags or {})}
    probs = shapes.VALIDATORS[method](result) if method in shapes.VALIDATORS else []
    if probs:
        acc.violation(Violation(family, {**tags0, "obs": "shape", "detail": re.sub(r"\[\d+\]", "[]", probs[0].split(":")[0])},
                                case, "a result of the prescribed shape", probs[:3], what=f"{method} {probs[0]}"))
        return
    if method == "textDocument/codeAction":
        # the text edits of an offered action (and the diagnostics it restates) address documents too; an insertion may
        # stand at the very end of the document (one line past the last)
        for k, a in enumerate(result or []):
            locs = [(u, e.get("range"), f"[{k}].edit.changes") for u, es in ((a.get("edit") or {}).get("changes") or {}).items() for e in es]
            locs += [(uri, d.get("range"), f"[{k}].diagnostics") for d in a.get("diagnostics") or []]
            for u, rng, where in locs:
                lines = (view(u) if view else doc_lines(s, u)) if u else None
                if lines is None or not isinstance(rng, dict):
                    acc.violation(Violation(family, {**tags0, "obs": "range_target_missing"}, case, "an existing document", u, what=f"{method} {where} points at {u}"))
                    continue
                bad = shapes.check_range(rng, list(lines) + [""], where)
                if bad:
                    kind = "line" if ".line" in bad[0] else ("character" if ".character" in bad[0] else "order")
                    acc.violation(Violation(family, {**tags0, "obs": "range_" + kind}, {**case, "range": rng, "target": u}, "a range inside the document",
                                            bad[:2], what=f"{method} {bad[0]}"))
        return
    for u, rng, where in shapes.collect_locations(result, uri):
        lines = (view(u) if view else doc_lines(s, u)) if u else None
        if lines is None:
            acc.violation(Violation(family, {**tags0, "obs": "range_target_missing"}, case, "an existing document", u,
                                    what=f"{method} {where} points at {u}"))
            continue
        bad = shapes.check_range(rng, lines, where)
        if bad:
            kind = "line" if ".line" in bad[0] else ("character" if ".character" in bad[0] else "order")
            acc.violation(Violation(family, {**tags0, "obs": "range_" + kind}, {**case, "range": rng, "target": u}, "a range inside the document",
                                    bad[:2], what=f"{method} {bad[0]}"))


def request_all(s, family, path, line, col, acc, desc, methods=METHODS, extra_tags=None, view=None, case_extra=None):
    from fortls.jsonrpc import path_to_uri

    uri = path_to_uri(path)
    for m in methods:
        params = Server.tdpp(path, line, col)
        if m.endswith("rename"):
            params["newName"] = "renamed_x"
        elif m.endswith("references"):
            params["context"] = {"includeDeclaration": True}
        elif m.endswith("codeAction"):
            params = {"textDocument": params["textDocument"], "range": {"start": {"line": line, "character": 0}, "end": {"line": line + (col % 4), "character": 0}},
                      "context": {"diagnostics": []}}
        resp, other = s.request(m, params)
        case = {"file": desc, "line": line, "character": col, "method": m, **(case_extra or {})}
        acc.case(nontrivial_key=(desc, line, col, m) if resp.get("result") is not None else None,
                 outcome=(m, type(resp.get("result")).__name__, "error" in resp))
        if "error" in resp:
            site, exc = _site(resp["error"])
            acc.violation(Violation(family, {"family": family, "method": m.split("/")[1], "obs": "error", "site": site, "exc": exc, **(extra_tags or {})},
                                    case, "a result or null", str(resp["error"].get("message"))[:160], what=f"{m} at {desc}:{line}:{col} -> {exc} at {site}"))
            continue
        check_result(s, family, m, resp["result"], uri, case, acc, extra_tags, view)


def positions_of(lines, every_column=False):
    n = len(lines)
    out = []
    for i, ln in enumerate(lines):
        cols = set()
        if every_column:
            cols.update(range(0, len(ln) + 2))
        else:
            for m in TOKEN.finditer(ln):
                cols.update({m.start(), (m.start() + m.end()) // 2, m.end()})
            cols.add(len(ln) + 1)
            cols.add(0)
        out.extend((i, c) for c in sorted(cols))
    out += [(n, 0), (n, 3), (n + 1, 0)]
    return out


def open_and_check_diagnostics(s, family, path, desc, acc):
    out = s.open(path)
    from fortls.jsonrpc import path_to_uri

    for o in out:
        if o.get("method") == "textDocument/publishDiagnostics":
            diags = o["params"]["diagnostics"]
            acc.case(nontrivial_key=("diag", desc) if diags else None, outcome=len(diags))
            for d in diags:
                p = shapes.v_diagnostic(d, "diagnostic")
                if p:
                    acc.violation(Violation(family, {"family": family, "method": "publishDiagnostics", "obs": "shape"}, {"file": desc}, None, p[:2]))
            check_result(s, family, "publishDiagnostics", diags, o["params"]["uri"], {"file": desc, "method": "publishDiagnostics"}, acc)
        elif "id" in o and "error" in o:
            acc.violation(Violation(family, {"family": family, "method": "didOpen", "obs": "error_response"}, {"file": desc}, None, str(o)[:200]))


def corpus_job(job, acc: Acc):
    rel, lo, hi, every = job
    s = _server()
    path = os.path.join(_S["root"], rel)
    if lo == 0:
        open_and_check_diagnostics(s, "corpus", path, rel, acc)
    f = s.srv.workspace.get(path)
    if f is None:
        s.open(path)
        f = s.srv.workspace.get(path)
    lines = list(f.contents_split) if f else []
    pos = positions_of(lines, every)
    for (ln, col) in pos[lo:hi]:
        request_all(s, "corpus", path, ln, col, acc, rel)
    if len(acc.samples) < 2 and pos[lo:hi]:
        acc.sample({"file": rel, "position": pos[lo], "methods": len(METHODS)})


def corpus_jobs(files, every_column_files=()):
    base = corpus_root()
    for rel in files:
        with open(os.path.join(base, rel), encoding="utf-8", errors="replace") as fh:
            lines = re.split(r"\r\n|\n|\r", fh.read())
        every = rel in every_column_files
        n = len(positions_of(lines, every))
        step = 150
        for lo in range(0, n, step):
            yield (rel, lo, lo + step, every)


# ------------------------------------------------------------------ mutants
def mutant_job(job, acc: Acc):
    rel, kind, i = job
    s = _server()
    path = os.path.join(_S["root"], rel)
    with open(os.path.join(corpus_root(), rel), encoding="utf-8", errors="replace") as fh:
        orig = fh.read()
    lines = orig.split("\n")
    if kind == "delete":
        new = lines[:i] + lines[i + 1:]
    elif kind == "half":
        new = lines[:i] + [lines[i][: len(lines[i]) // 2]] + lines[i + 1:]
    else:
        new = lines[:i + 1]
    s.open(path)
    s.change(path, [{"text": "\n".join(new)}])
    desc = f"{rel} [{kind} line {i}]"
    lo = max(0, i - 2)
    f = s.srv.workspace.get(path)
    cur = list(f.contents_split)
    for ln in range(lo, min(len(cur), i + 3)):
        for m in TOKEN.finditer(cur[ln]):
            request_all(s, "mutants", path, ln, (m.start() + m.end()) // 2, acc, desc)
        request_all(s, "mutants", path, ln, len(cur[ln]), acc, desc)
    # restore the document for the next job
    s.change(path, [{"text": orig}])


def mutant_jobs(files, stride):
    base = corpus_root()
    for rel in files:
        with open(os.path.join(base, rel), encoding="utf-8", errors="replace") as fh:
            n = len(fh.read().split("\n"))
        for i in range(0, n, stride):
            for kind in ("delete", "half", "truncate"):
                yield (rel, kind, i)


# --------------------------------------------------------------- intrinsics
def intrinsic_names():
    from fortls.parsers.internal.intrinsics import get_intrinsic_keywords, load_intrinsics

    st, kw, funs, mods = load_intrinsics()
    names = []
    for o in funs:
        names.append(("procedure", o.name))
    for group in (st.values() if isinstance(st, dict) else [st]):
        for o in group:
            names.append(("statement", o.name))
    for group in (kw.values() if isinstance(kw, dict) else [kw]):
        for o in group:
            names.append(("keyword", o.name))
    for m in mods:
        for c in m.get_children():
            names.append(("module_member:" + m.name, c.name))
        names.append(("module", m.name))
    seen, out = set(), []
    for k, n in names:
        if (k, n.lower()) not in seen and re.fullmatch(r"[A-Za-z_][\w ]*", n or ""):
            seen.add((k, n.lower()))
            out.append((k, n))
    return out


def intrinsic_job(job, acc: Acc):
    kind, name = job
    s = _server()
    path = os.path.join(_S["root"], "zz_intrinsic_probe.f90")
    word = name.split()[0]
    mod = kind.split(":")[1] if kind.startswith("module_member:") else "iso_fortran_env"
    text = (f"program probe\n  use {mod}, only: {word}\n  implicit none\n  integer :: q\n"
            f"  q = {word}(q)\n  call {word}(q)\n  {name}\n  print *, {word}\nend program probe\n")
    s.open(path)
    s.change(path, [{"text": text}])
    lines = text.split("\n")
    for ln in (1, 4, 5, 6, 7):
        col = lines[ln].lower().find(word.lower())
        if col < 0:
            continue
        for c in (col, col + len(word) // 2, col + len(word)):
            request_all(s, "intrinsics", path, ln, c, acc, f"intrinsic {kind} {name}", extra_tags={"intrinsic_kind": kind.split(":")[0]})
    if len(acc.samples) < 1:
        acc.sample({"intrinsic": name, "kind": kind, "document": text})


# --------------------------------------------------------- special entities
# Small programs around entities whose *kind* differs from what their declaration form suggests (a dummy procedure or
# procedure pointer whose interface is a generic, a binding to a generic, a type named like a module procedure's
# dummy ...): every positional method at every token.
SPECIAL = {
    "generic_as_interface": "module sgm\n  implicit none\n  interface sgen\n    module procedure ss1, ss2\n  end interface sgen\n  procedure(sgen), pointer :: spp\ncontains\n"
                            "  subroutine ss1(a)\n    integer :: a\n  end subroutine ss1\n  subroutine ss2(a)\n    real :: a\n  end subroutine ss2\n"
                            "  subroutine shost(cb)\n    procedure(sgen) :: cb\n    call cb(1)\n    call spp(2.0)\n    call sgen(3)\n  end subroutine shost\nend module sgm\n",
    "bound_generic": "module sbm\n  implicit none\n  type :: sbt\n  contains\n    procedure :: sb1\n    procedure :: sb2\n    generic :: sbg => sb1, sb2\n    generic :: operator(+) => sb3\n    procedure :: sb3\n  end type sbt\ncontains\n"
                     "  subroutine sb1(self, a)\n    class(sbt) :: self\n    integer :: a\n  end subroutine sb1\n  subroutine sb2(self, a)\n    class(sbt) :: self\n    real :: a\n  end subroutine sb2\n"
                     "  function sb3(self, o) result(r)\n    class(sbt), intent(in) :: self, o\n    type(sbt) :: r\n  end function sb3\n"
                     "  subroutine suse(v)\n    type(sbt) :: v, w\n    call v%sbg(1)\n    w = v + v\n  end subroutine suse\nend module sbm\n",
    "abstract_deferred": "module sam\n  implicit none\n  type, abstract :: sat\n  contains\n    procedure(sai), deferred :: sad\n  end type sat\n  abstract interface\n    subroutine sai(self)\n      import :: sat\n"
                         "      class(sat) :: self\n    end subroutine sai\n  end interface\ncontains\n  subroutine suse2(v)\n    class(sat) :: v\n    call v%sad()\n  end subroutine suse2\nend module sam\n",
    # an extension that does not implement a deferred binding: the one shape for which code actions have something to
    # offer (asked at every token, i.e. many times for the same type)
    "deferred_not_implemented": "module sdm\n  implicit none\n  type, abstract :: sdt\n  contains\n    procedure(sdi), deferred :: sdd\n  end type sdt\n  abstract interface\n"
                                "    subroutine sdi(self)\n      import :: sdt\n      class(sdt) :: self\n    end subroutine sdi\n  end interface\n"
                                "  type, extends(sdt) :: sdc\n    integer :: sdv\n  end type sdc\n  type, extends(sdt) :: sdc2\n    integer :: sdw\n  contains\n    procedure :: sdother\n  end type sdc2\n"
                                "contains\n  subroutine sdother(self)\n    class(sdc2) :: self\n  end subroutine sdother\nend module sdm\n",
    # (preprocessed probe) entities whose names exist only through macro expansion: the expanded line is longer than the
    # line the client has, columns taken from it lie outside the document
    "pp_expanded_names": "#define COUNTER number_of_iterations_done_so_far\n#define DECL(n) integer :: n\nmodule spm\n  implicit none\n  integer :: COUNTER\n  DECL(spv)\ncontains\n"
                         "  subroutine sps()\n    number_of_iterations_done_so_far = 1\n    COUNTER = 2\n    spv = COUNTER\n  end subroutine sps\nend module spm\n",
    # characters whose lower- or upper-case form has another length (U+0130 -> 2 code points, U+00DF -> "SS") in literals
    # and comments to the left of names: columns computed on a case-folded copy of the line are off
    "case_folding_length": "module scm\n  implicit none\n  character(len=9) :: sc1 = \"\u0130\u0130\u0130\u0130\u0130\u0130\", sc2\n"
                           "  character(len=9) :: sc3 = \"\u00df\u00df\u00df\u00df\u00df\u00df\", sc4  ! \u0130\u0130\u0130\n  integer :: sc5 ! \u0130\u0130\u0130\u0130\u0130\u0130\u0130\u0130\ncontains\n"
                           "  subroutine scs(sca)\n    character(len=*) :: sca\n    sc2 = \"\u0130\u0130\u0130\u0130\" // sca; sc4 = sca\n    sc4 = \"\u00df\u00df\u00df\u00df\" // sc2; sc5 = 1\n"
                           "    call scs(\"\u0130\u0130\u0130\u0130\u0130\u0130\" // sc2)\n  end subroutine scs\nend module scm\n",
}


def special_job(name, acc: Acc):
    text = SPECIAL[name]
    s = _server()
    path = os.path.join(_S["root"], "zz_special_probe" + (".F90" if name.startswith("pp_") else ".f90"))
    s.open(path)
    s.change(path, [{"text": text}])
    for ln, line in enumerate(text.split("\n")):
        for m in TOKEN.finditer(line):
            for col in sorted({m.start(), (m.start() + m.end()) // 2, m.end()}):
                request_all(s, "special_entities", path, ln, col, acc, f"special {name}", extra_tags={"program": name}, case_extra={"program": name})
    acc.sample({"program": name, "text": text}, cap=1)


# ---------------------------------------------------------------- fragments
# Documents of one or two lines made of statement fragments (complete, partial and broken; the alphabet of C03), so that
# the cursor also stands outside any program unit, in files without a single scope: every column, every method.
FRAGMENT_EXTRA = ["integer, p", "integer, dimension(3), p", "real, in", "type(t), al", "use m, on", "call s(1, 'a", "x = 1.0e0 + .true. // 'str'",
                  "print *, 12, \"s\"", "a%b%", "call a%b(", "procedure(", "1 + 2", ".true.", "'literal only'"]


def fragment_jobs():
    from . import c03

    frags = [f for f in c03.FRAGMENTS if not f.startswith("#")] + FRAGMENT_EXTRA
    for k, f in enumerate(frags):
        for shape in ("alone", "after_blank", "before_end", "after_decl"):
            yield (k, f, shape)


def fragment_job(job, acc: Acc):
    k, frag, shape = job
    lines = {"alone": [frag], "after_blank": ["", frag], "before_end": [frag, "end"], "after_decl": ["integer :: a", frag]}[shape]
    text = "\n".join(lines) + "\n"
    s = _server()
    path = os.path.join(_S["root"], "zz_fragment_probe.f90")
    s.open(path)
    s.change(path, [{"text": text}])
    ln = lines.index(frag)
    for col in range(0, len(frag) + 2):
        request_all(s, "fragments", path, ln, col, acc, f"fragment[{k}] {shape}", extra_tags={"shape": shape},
                    case_extra={"fragment": frag, "shape": shape, "text": text})
    if len(acc.samples) < 1:
        acc.sample({"fragment": frag, "shape": shape, "document": text})


# ------------------------------------------------------- diagnostics on continued statements
# Diagnostics that are anchored on a word (undeclared dummy, declared twice, masking, unknown module, unknown type, INTENT
# without argument) take their line and columns from where the word is found: the word is put on the first line or on
# a continuation line, at a small or a large column, after 0-2 intervening comment / blank lines.
DIAG_TEMPLATES = {
    "undeclared_dummy": ["subroutine dsub(first_arg, @undeclared_dummy_name)", "  implicit none", "  integer :: first_arg", "end subroutine dsub"],
    "declared_twice": ["subroutine dsub()", "  integer :: twice_declared", "  real :: other_one, @twice_declared", "end subroutine dsub"],
    "masks_host": ["module dmod", "  integer :: masked_host_variable", "contains", "  subroutine dsub()", "    integer :: local_one, @masked_host_variable",
                   "  end subroutine dsub", "end module dmod"],
    "unknown_module": ["subroutine dsub()", "  use @module_that_does_not_exist", "end subroutine dsub"],
    "unknown_type": ["module dtypes", "  type :: type_that_is_elsewhere", "    integer :: q", "  end type type_that_is_elsewhere", "end module dtypes",
                     "subroutine dsub()", "  type(@type_that_is_elsewhere) :: v", "end subroutine dsub"],
    "intent_not_argument": ["subroutine dsub(a)", "  integer :: a", "  integer, intent(in) :: b_one, @not_an_argument", "end subroutine dsub"],
}


def diag_cases():
    for name in DIAG_TEMPLATES:
        for brk in ("none", "before_word"):
            for indent in ((0,) if brk == "none" else (2, 30, 70)):
                for between in ((0,) if brk == "none" else (0, 1, 2)):
                    for form in ("free",):
                        yield (name, brk, indent, between)


def diag_text(case):
    name, brk, indent, between = case
    out = []
    for ln in DIAG_TEMPLATES[name]:
        if "@" not in ln:
            out.append(ln)
            continue
        head, tail = ln.split("@")
        if brk == "none":
            out.append(head + tail)
        else:
            out.append(head.rstrip() + " &")
            out += ["", "  ! a comment between the lines of the statement"][:between]
            out.append(" " * indent + tail)
    return "\n".join(out) + "\n"


def diag_job(case, acc: Acc):
    text = diag_text(case)
    sc = worker_scratch("c09diag")
    sc.wipe()
    root = os.path.join(sc.path, "ws")
    os.makedirs(root)
    path = os.path.join(root, "d.f90")
    with open(path, "w") as fh:
        fh.write(text)
    clear_caches()
    s = server_on(root, [])
    n = 0
    for o in s.open(path) + s.save(path):
        if o.get("method") == "textDocument/publishDiagnostics":
            diags = o["params"]["diagnostics"]
            n = max(n, len(diags))
            check_result(s, "diag_continuation", "publishDiagnostics", diags, o["params"]["uri"],
                         {"case": list(case), "text": text, "method": "publishDiagnostics"}, acc,
                         {"class": case[0], "break": case[1], "indent": case[2]}, view=lambda u: text.split("\n"))
            # the flagged word: the range must cover it on its own line (where the statement says it is)
            word = DIAG_TEMPLATES[case[0]][[i for i, l in enumerate(DIAG_TEMPLATES[case[0]]) if "@" in l][0]].split("@")[1].split(")")[0].split(" ")[0]
            lines = text.split("\n")
            for d in diags:
                r = d["range"]
                if r["start"]["line"] < len(lines) and r["start"]["character"] != r["end"]["character"]:
                    got = lines[r["start"]["line"]][r["start"]["character"]:r["end"]["character"]]
                    if r["start"]["line"] == r["end"]["line"] and word.lower() in d["message"].lower() and got.lower() != word.lower():
                        acc.violation(Violation("diag_continuation", {"family": "diag_continuation", "method": "publishDiagnostics", "obs": "range_not_on_word",
                                                                      "class": case[0], "break": case[1]}, {"case": list(case), "text": text},
                                                word, {"range": r, "covers": got}, what=f"{case}: diagnostic about {word!r} covers {got!r}"))
    acc.case(nontrivial_key=case if n else None, outcome=(case[0], n))
    if len(acc.samples) < 1 and case[1] != "none":
        acc.sample({"case": list(case), "text": text})


# ------------------------------------------------ statement-anchored diagnostics on continued statements
STMT_DIAG_TEXTS = {
    "implicit_outside": "implicit &\n   none\n",
    "implicit_outside_amp": "implicit &\n   &none\n",
    "second_contains_split_word": "module m\ncontains\ncon&\n&tains\nend module m\n",
    "private_outside": "module m\nend module m\npri&\n  &vate\n",
    "contains_outside_indented": "                    contains &\n\n",
    "use_after_implicit": "module a\nend module a\nmodule m\n  implicit none\n  use &\n a\nend module m\n",
}


def stmt_diag_job(job, acc: Acc):
    name, eol = job
    text = STMT_DIAG_TEXTS[name].replace("\n", eol)
    sc = worker_scratch("c09diag")
    sc.wipe()
    root = os.path.join(sc.path, "ws")
    os.makedirs(root)
    path = os.path.join(root, "d.f90")
    with open(path, "w", newline="") as fh:
        fh.write(text)
    clear_caches()
    s = server_on(root, [])
    n = 0
    for o in s.open(path) + s.save(path):
        if o.get("method") == "textDocument/publishDiagnostics":
            n = max(n, len(o["params"]["diagnostics"]))
            check_result(s, "diag_statement", "publishDiagnostics", o["params"]["diagnostics"], o["params"]["uri"],
                         {"job": list(job), "text": text, "method": "publishDiagnostics"}, acc, {"text_kind": name}, view=lambda u: re.split(r"\r\n|\n|\r", text))
    acc.case(nontrivial_key=job if n else None, outcome=(name, n))


# ------------------------------------------------ code actions whose module takes its tail from an INCLUDE file
CA_BASE = ("module cab_m\n  implicit none\n  type, abstract :: cab_shape\n  contains\n    procedure(cab_area_i), deferred :: area\n  end type cab_shape\n  abstract interface\n"
           "    function cab_area_i(self) result(a)\n      import cab_shape\n      class(cab_shape), intent(in) :: self\n      real :: a\n    end function cab_area_i\n  end interface\nend module cab_m\n")
CA_SHAPES = "module cas_m\n  use cab_m\n  implicit none\n  type, extends(cab_shape) :: cas_circle\n    real :: r = 1.0\n  end type cas_circle\n{tail}end module cas_m\n"
CA_TAIL = "  integer, save :: cas_n = 0\ncontains\n  subroutine cas_count()\n    cas_n = cas_n + 1\n  end subroutine cas_count\n"


def codeaction_jobs():
    for pad in (0, 3, 12):            # comment lines in front of the tail: the included procedures start beyond the includer's last line
        for where in ("include", "inline"):
            for contains_in in ("tail", "includer"):
                if where == "inline" and contains_in == "includer":
                    continue
                yield (pad, where, contains_in)


def codeaction_job(job, acc: Acc):
    """The quick fix "implement deferred procedures" edits the file of the type; where the module's CONTAINS and
    procedures come from an INCLUDE file (longer than the includer), every edit must still address the includer's text."""
    pad, where, contains_in = job
    tail = "".join(f"  ! filler {i}\n" for i in range(pad)) + (CA_TAIL if contains_in == "tail" else CA_TAIL.replace("contains\n", ""))
    sc = worker_scratch("c09ca")
    sc.wipe()
    root = os.path.join(sc.path, "ws")
    os.makedirs(root)
    files = {"a_base.f90": CA_BASE}
    if where == "include":
        files["cas_tail.f90"] = tail
        files["shapes.f90"] = CA_SHAPES.format(tail=("contains\n" if contains_in == "includer" else "") + "  include 'cas_tail.f90'\n")
    else:
        files["shapes.f90"] = CA_SHAPES.format(tail=tail)
    for n, t in files.items():
        with open(os.path.join(root, n), "w") as fh:
            fh.write(t)
    clear_caches()
    s = server_on(root, ["--enable_code_actions"])
    path = os.path.join(root, "shapes.f90")
    s.open(path)
    n = 0
    for ln in range(files["shapes.f90"].count("\n") + 1):
        for col in (0, 1, 2, 3):
            before = len(acc.violations)
            request_all(s, "code_actions", path, ln, col, acc, f"codeaction {job}", methods=["textDocument/codeAction"], extra_tags={"where": where, "contains_in": contains_in},
                        case_extra={"job": list(job)})
            n += 1
    acc.count("code_action_requests", n)


# ------------------------------------------------ diagnostics that point into other files
# A diagnostic (and its relatedInformation) names a place in a document: the file must be the one the line number
# belongs to.  Short files next to long ones, so that a line number taken from the wrong file falls outside.
PAD = "".join(f"! filler line {i}\n" for i in range(30))
CROSS = {
    "masks_used_module": {
        "defs.f90": "module xdefs\n  implicit none\n" + PAD + "  integer :: counter\nend module xdefs\n",
        "user.f90": "module xuser\n  use xdefs\n  implicit none\ncontains\n  subroutine s()\n    integer :: counter\n    counter = 1\n  end subroutine s\nend module xuser\n",
    },
    "twice_in_include": {
        "main.f90": "program xmain\n  implicit none\n  include 'xinc.f90'\nend program xmain\n",
        "xinc.f90": PAD + "  integer :: a\n  real :: b\n  integer :: a\n",
    },
    "masks_from_include": {
        "host.f90": "module xhost\n  implicit none\n  include 'xdecl.f90'\ncontains\n  subroutine s()\n    integer :: from_inc\n    from_inc = 1\n  end subroutine s\nend module xhost\n",
        "xdecl.f90": PAD + "  integer :: from_inc\n",
    },
    "twice_across_submodule": {
        "par.f90": "module xpar\n  implicit none\n" + PAD + "  integer :: shared\n  interface\n    module subroutine ms()\n    end subroutine ms\n  end interface\nend module xpar\n",
        "sub.f90": "submodule (xpar) xsub\n  implicit none\ncontains\n  module subroutine ms()\n    integer :: shared\n    shared = 1\n  end subroutine ms\nend submodule xsub\n",
    },
}


def cross_job(name, acc: Acc):
    files = CROSS[name]
    sc = worker_scratch("c09x")
    sc.wipe()
    root = os.path.join(sc.path, "ws")
    os.makedirs(root)
    for n, t in files.items():
        with open(os.path.join(root, n), "w") as fh:
            fh.write(t)
    clear_caches()
    s = server_on(root, [])

    def view(uri):
        from fortls.jsonrpc import path_from_uri

        p = path_from_uri(uri) if uri.startswith("file://") else uri
        n = os.path.basename(p)
        return files[n].split("\n") if n in files and os.path.dirname(os.path.realpath(p)) == os.path.realpath(root) else None

    ndiag = 0
    for n in sorted(files):
        path = os.path.join(root, n)
        for o in s.open(path) + s.save(path):
            if o.get("method") == "textDocument/publishDiagnostics":
                ndiag += len(o["params"]["diagnostics"])
                check_result(s, "diag_cross_file", "publishDiagnostics", o["params"]["diagnostics"], o["params"]["uri"],
                             {"workspace": name, "file": n, "method": "publishDiagnostics"}, acc, {"workspace": name}, view=view)
    acc.case(nontrivial_key=name if ndiag else None, outcome=(name, ndiag))
    if len(acc.samples) < 1:
        acc.sample({"workspace": name, "files": {k: v[-120:] for k, v in files.items()}})


# --------------------------------------------------------------------- sync
# Ranges must address the document the *client* holds: the synchronised text of an open document, the file of a
# closed one.  Histories of didOpen / ranged didChange / didSave / didClose on two small files, then every
# positional method at every token of both files, judged against the client's view.
SYNC_A = ("module sm\n  implicit none\n  integer :: nn\ncontains\n  integer function sf(x)\n"
          "    integer, intent(in) :: x\n    sf = x + nn\n  end function sf\nend module sm\n")
SYNC_B = "program sp\n  use sm\n  implicit none\n  nn = sf(1)\nend program sp\n"
SYNC_FILES = {"sa.f90": SYNC_A, "sb.f90": SYNC_B}


def _find(text, needle):
    lines = text.split("\n")
    for i, ln in enumerate(lines):
        c = ln.find(needle)
        if c >= 0:
            return i, c
    return None


def sync_edit(kind, text):
    """A content change of the given kind for the current client text (None if it does not apply)."""
    lines = text.split("\n")
    pt = lambda l, c: {"line": l, "character": c}  # noqa: E731
    if kind == "ins_decl":
        at = _find(text, ":: nn") or _find(text, ":: ")
        if at is None:
            return None
        p = pt(at[0], at[1] + 3)
        return {"range": {"start": p, "end": p}, "text": "a_long_inserted_entity_name_of_forty_chars, "}
    if kind == "shorten_decl":
        # a single-line replacement that moves the rest of a declaration line to the left
        at = _find(text, "integer :: ")
        if at is None:
            return None
        return {"range": {"start": pt(at[0], at[1]), "end": pt(at[0], at[1] + 7)}, "text": "real"}
    if kind == "ins_lines":
        return {"range": {"start": pt(0, 0), "end": pt(0, 0)}, "text": "! one\n! two\n! three\n"}
    if kind == "del_line":
        if len(lines) < 3:
            return None
        return {"range": {"start": pt(1, 0), "end": pt(2, 0)}, "text": ""}
    if kind == "append":
        n = len(lines) - 1
        return {"range": {"start": pt(n, len(lines[n])), "end": pt(n, len(lines[n]))},
                "text": "subroutine appended_after_everything(q)\n  integer :: q\nend subroutine appended_after_everything\n"}
    if kind == "truncate":
        if len(lines) < 4:
            return None
        return {"range": {"start": pt(3, 0), "end": pt(len(lines) - 1, len(lines[-1]))}, "text": ""}
    if kind == "full":
        return {"text": text.replace("nn", "nn_renamed_to_something_longer")}
    raise KeyError(kind)


SYNC_EDITS = ("ins_decl", "shorten_decl", "ins_lines", "del_line", "append", "truncate", "full")
SYNC_EVENTS = [("open", f) for f in SYNC_FILES] + [("close", f) for f in SYNC_FILES] + [("save", "sa.f90")] + \
    [("edit", "sa.f90", k) for k in SYNC_EDITS] + [("edit", "sb.f90", "ins_lines")]


def sync_histories(depth):
    """All legal histories up to `depth` (edit/save/close need the document open; open needs it closed)."""
    out = []

    def rec(h, is_open):
        if h:
            out.append(tuple(h))
        if len(h) == depth:
            return
        for ev in SYNC_EVENTS:
            f = ev[1]
            if (ev[0] == "open") == (f in is_open):
                continue
            nxt = (is_open | {f}) if ev[0] == "open" else (is_open - {f}) if ev[0] == "close" else is_open
            rec(h + [ev], nxt)

    rec([], frozenset())
    return out


def sync_job(job, acc: Acc):
    """job = (history, ask_between): with ask_between every positional question is also asked after each event, in
    the same server (a question must not change what a later one is answered: whatever the server remembers from
    answering has to follow the text)."""
    from fortls.jsonrpc import path_from_uri

    hist, ask_between = job

    sc = worker_scratch("c09sync")
    sc.wipe()
    root = os.path.join(sc.path, "ws")
    os.makedirs(root)
    disk = dict(SYNC_FILES)
    for f, t in disk.items():
        with open(os.path.join(root, f), "w") as fh:
            fh.write(t)
    clear_caches()
    s = server_on(root, ["--incremental_sync"])
    client = {}
    applied = []

    def view(uri):
        p = path_from_uri(uri) if uri.startswith("file://") else uri
        f = os.path.basename(p)
        if os.path.dirname(os.path.realpath(p)) != os.path.realpath(root) or f not in disk:
            return None
        return (client[f] if f in client else disk[f]).split("\n")

    def ask(done):
        tags = {"sync": "open" if "sa.f90" in client else "closed", "asked_between": ask_between,
                "unsaved": bool(any(e[0] == "edit" for e in done) and "sa.f90" not in client and disk["sa.f90"] == SYNC_A)}
        hx = [list(e) for e in done]
        for f in sorted(disk):
            path = os.path.join(root, f)
            lines = view(path)
            for (ln, col) in positions_of(lines):
                request_all(s, "sync", path, ln, col, acc, f, extra_tags=tags, view=view,
                            case_extra={"history": hx, "ask_between": ask_between})

    if ask_between:
        ask(())
    for ev in hist:
        f = ev[1]
        path = os.path.join(root, f)
        if ev[0] == "open":
            client[f] = disk[f]
            out = s.open(path, client[f])
        elif ev[0] == "close":
            del client[f]
            out = s.close(path)
        elif ev[0] == "save":
            disk[f] = client[f]
            with open(path, "w") as fh:
                fh.write(disk[f])
            out = s.save(path)
        else:
            ch = sync_edit(ev[2], client[f])
            if ch is None:
                acc.count("edit_not_applicable")
                return
            client[f] = refdoc.apply(client[f], ch)
            out = s.change(path, [ch])
        applied.append(ev)
        for o in out:
            if "id" in o and "error" in o:
                acc.violation(Violation("sync", {"family": "sync", "method": ev[0], "obs": "error_response"},
                                        {"history": [list(e) for e in applied]}, None, str(o)[:200]))
        if ask_between and len(applied) < len(hist):
            ask(tuple(applied))

    ask(hist)
    if len(acc.samples) < 1 and len(hist) >= 3:
        acc.sample({"history": [list(e) for e in hist], "client_view_of_sa": (client.get("sa.f90") or disk["sa.f90"])[:200]})


# --------------------------------------------------------------------- main
def main(ctx):
    q = ctx.quick
    files = list_sources()
    ctx.rule = ("corpus: (file, position, method) for every token start/interior/end, one past every line end and past the "
                "end of file x 9 positional methods, plus diagnostics on open; mutants: the same on line-deleted / "
                "half-line / truncated variants around the mutation; intrinsics: every bundled intrinsic name under the "
                "cursor in 5 contexts. Non-trivial = the answer is not null; distinct by (file, position, method).")
    ctx.assumptions = ["the sample sources are indexed together as one workspace (as the repository's suite does)",
                       "sync family: ranges are checked against the text the client holds (synchronised text of an open document, the file of a closed one)",
                       "ranges are checked against the text the server holds for the target (or the file on disk)"]
    sel = files
    every = () if q else tuple(files)
    acc = core.pmap(corpus_job, corpus_jobs(sel, every), chunk=1, budget_s=600, label="C09/corpus")
    ctx.add_family("corpus", acc, files=len(sel), every_column_files=len(every))
    macc = core.pmap(mutant_job, mutant_jobs(sel[:30] if q else sel, 3 if q else 1), chunk=4, budget_s=600, label="C09/mutants")
    ctx.add_family("mutants", macc)
    names = intrinsic_names()
    iacc = core.pmap(intrinsic_job, names, chunk=4, budget_s=600, label="C09/intrinsics")
    ctx.add_family("intrinsics", iacc, names=len(names))
    pacc = core.pmap(special_job, sorted(SPECIAL), chunk=1, budget_s=300, label="C09/special")
    ctx.add_family("special_entities", pacc, programs=len(SPECIAL))
    facc = core.pmap(fragment_job, list(fragment_jobs()), chunk=4, budget_s=300, label="C09/fragments")
    ctx.add_family("fragments", facc)
    dacc = core.pmap(diag_job, list(diag_cases()), chunk=2, budget_s=120, label="C09/diag")
    ctx.add_family("diag_continuation", dacc, templates=len(DIAG_TEMPLATES))
    tacc = core.pmap(stmt_diag_job, [(n, e) for n in sorted(STMT_DIAG_TEXTS) for e in ("\n", "\r\n")], chunk=1, budget_s=120, label="C09/diag_statement")
    ctx.add_family("diag_statement", tacc, what="parse-time diagnostics (IMPLICIT / CONTAINS / PRIVATE outside a scope, second CONTAINS, USE after IMPLICIT) whose statement is "
                   "continued over two lines, LF and CRLF: the range lies inside the named line")
    kacc = core.pmap(codeaction_job, list(codeaction_jobs()), chunk=1, budget_s=120, label="C09/codeactions")
    ctx.add_family("code_actions", kacc, what="an extension with an unimplemented deferred binding whose module takes declarations / CONTAINS / procedures inline or from an "
                   "INCLUDE file with 0-12 leading lines: codeAction over every line range, every text edit inside its document")
    xacc = core.pmap(cross_job, sorted(CROSS), chunk=1, budget_s=120, label="C09/cross")
    ctx.add_family("diag_cross_file", xacc, workspaces=len(CROSS))
    depth = 3 if q else 4
    hs = sync_histories(depth)
    sjobs = [(h, False) for h in hs] + [(h, True) for h in hs if len(h) == depth]
    sacc = core.pmap(sync_job, sjobs, chunk=4, budget_s=900, label="C09/sync")
    ctx.add_family("sync", sacc, histories=len(hs), depth=depth, events=len(SYNC_EVENTS), asked_after_every_event=len(sjobs) - len(hs))
    ctx.exhaustive = True
    ctx.coverage_extra["bounds"] = {"files": len(sel), "of": len(files), "intrinsic_names": len(names),
                                    "positions": "token start/interior/end + past line end + past EOF" if q else "every column of every line",
                                    "mutants": "30 files, every 3rd line" if q else "all files, every line",
                                    "sync": f"all legal open/edit/save/close histories of depth <= {depth} over {len(SYNC_EVENTS)} events"}


def replay(rec):
    c = rec["case"]
    acc = Acc()
    s = _server()
    fam = rec["family"]
    if fam == "corpus" and "line" in c:
        path = os.path.join(_S["root"], c["file"])
        s.open(path)
        request_all(s, "corpus", path, c["line"], c["character"], acc, c["file"], methods=[c["method"]])
    elif fam == "corpus":
        open_and_check_diagnostics(s, "corpus", os.path.join(_S["root"], c["file"]), c["file"], acc)
    elif fam == "mutants":
        m = re.match(r"(.*) \[(\w+) line (\d+)\]", c["file"])
        mutant_job((m.group(1), m.group(2), int(m.group(3))), acc)
    elif fam == "special_entities":
        special_job(c["program"], acc)
        return [v.to_json("C09") for v in acc.violations if (v.case.get("method"), v.case.get("line"), v.case.get("character")) == (c.get("method"), c.get("line"), c.get("character"))] or None
    elif fam == "fragments":
        from . import c03

        frags = [f for f in c03.FRAGMENTS if not f.startswith("#")] + FRAGMENT_EXTRA
        fragment_job((frags.index(c["fragment"]), c["fragment"], c["shape"]), acc)
        return [v.to_json("C09") for v in acc.violations if (v.case.get("method"), v.case.get("character")) == (c.get("method"), c.get("character"))] or None
    elif fam == "diag_statement":
        stmt_diag_job(tuple(c["job"]), acc)
        return [v.to_json("C09") for v in acc.violations] or None
    elif fam == "code_actions":
        codeaction_job(tuple(c["job"]), acc)
        return [v.to_json("C09") for v in acc.violations if (v.case.get("line"), v.case.get("character")) == (c.get("line"), c.get("character"))] or None
    elif fam == "diag_cross_file":
        cross_job(c["workspace"], acc)
        return [v.to_json("C09") for v in acc.violations] or None
    elif fam == "diag_continuation":
        diag_job(tuple(c["case"]), acc)
        return [v.to_json("C09") for v in acc.violations] or None
    elif fam == "sync":
        sync_job((tuple(tuple(e) for e in c["history"]), bool(c.get("ask_between"))), acc)
        return [v.to_json("C09") for v in acc.violations
                if (v.case.get("method"), v.case.get("line"), v.case.get("character"), v.case.get("file")) ==
                (c.get("method"), c.get("line"), c.get("character"), c.get("file"))] or None
    else:
        m = re.match(r"intrinsic (\S+) (.*)", c["file"])
        intrinsic_job((m.group(1), m.group(2)), acc)
    return [v.to_json("C09") for v in acc.violations if v.case.get("method") == c.get("method")] or None
