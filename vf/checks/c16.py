"""C16 — wire framing is byte-exact in both directions; URIs round-trip.

Bounded-exhaustive enumeration:
  writer   every string of length <= N over one character per encoding class,
           in five payload positions, through the real write_response /
           write_error / send_notification; read back by an independent reader.
  reader   streams of 1..3 messages written by an independent writer (raw UTF-8
           and ASCII-escaped bodies, three header layouts) fed to the real
           LangServer.run() through ReadWriter(BufferedReader(raw)) where `raw`
           delivers the bytes in scripted chunks: no cut, every single cut,
           every pair of cuts, one byte at a time.
  uri      every path of <= 3 segments of <= 2 characters over a path alphabet.
"""
from __future__ import annotations

import io
import itertools
import re

from .. import core
from ..core import Acc, Violation
from ..driver import FrameError, frame, parse_frames, parse_cli, reset_globals, run_subprocess, use_fake_pool

LEVEL = "exploration"

CHARS = ["a", '"', "\\", "\x01", "\x7f", "é", "€", " ", "\U0001F600"]


def strings(maxlen):
    for n in range(1, maxlen + 1):
        for t in itertools.product(CHARS, repeat=n):
            yield "".join(t)


# ------------------------------------------------------------------ writer
def _conn():
    from fortls.jsonrpc import JSONRPC2Connection, ReadWriter

    out = io.BytesIO()
    return JSONRPC2Connection(ReadWriter(io.BytesIO(), out)), out


def writer_case(s, acc: Acc):
    conn, out = _conn()
    sent = []
    conn.write_response(1, {"v": s})
    sent.append({"jsonrpc": "2.0", "id": 1, "result": {"v": s}})
    conn.write_response(s, {s: 1})
    sent.append({"jsonrpc": "2.0", "id": s, "result": {s: 1}})
    conn.write_error(2, code=-32603, message=s, data={"traceback": s})
    sent.append({"jsonrpc": "2.0", "id": 2, "error": {"code": -32603, "message": s, "data": {"traceback": s}}})
    conn.send_notification("window/showMessage", {"type": 1, "message": s})
    sent.append({"jsonrpc": "2.0", "method": "window/showMessage", "params": {"type": 1, "message": s}})
    conn.send_notification("textDocument/publishDiagnostics", {"uri": "file:///" + s, "diagnostics": []})
    sent.append({"jsonrpc": "2.0", "method": "textDocument/publishDiagnostics",
                 "params": {"uri": "file:///" + s, "diagnostics": []}})
    data = out.getvalue()
    acc.case(nontrivial_key=s if any(ord(c) > 0x7E or ord(c) < 0x20 for c in s) else None, outcome=len(data))
    try:
        frames = parse_frames(data)
        got = [o for (_, _, o) in frames]
        ok = got == sent
        obs = "decoded_differs" if not ok else None
    except FrameError as e:
        ok, got, obs = False, str(e), "frame_error"
    if not ok:
        acc.violation(Violation("writer", {"family": "writer", "obs": obs, "non_ascii": any(ord(c) > 0x7F for c in s)},
                                {"string": s}, sent, got, what=f"payload string {s!r}"))
    acc.sample({"writer_string": s}, cap=2)


# ------------------------------------------------------------------ reader
class ChunkedRaw(io.RawIOBase):
    """Delivers `data` in chunks ending at the scripted cut positions."""

    def __init__(self, data: bytes, cuts):
        self.data = data
        self.bounds = sorted(set(c for c in cuts if 0 < c < len(data))) + [len(data)]
        self.pos = 0
        self.k = 0

    def readable(self):
        return True

    def readinto(self, b):
        if self.pos >= len(self.data):
            return 0
        while self.bounds[self.k] <= self.pos:
            self.k += 1
        end = min(self.bounds[self.k], self.pos + len(b))
        n = end - self.pos
        b[:n] = self.data[self.pos : end]
        self.pos = end
        return n


def run_server_on_stream(data: bytes, cuts, record_only=True):
    """The real run() loop; returns (messages seen by handle, output bytes, leftover)."""
    import fortls.langserver as ls
    from fortls.jsonrpc import JSONRPC2Connection, ReadWriter

    out = io.BytesIO()
    raw = ChunkedRaw(data, cuts)
    rd = io.BufferedReader(raw, buffer_size=16)
    conn = JSONRPC2Connection(ReadWriter(rd, out))
    if record_only:
        # run() only touches conn / running / post_messages: one server object per
        # worker is reused, with a fresh connection per schedule
        srv = _SRV.get("s")
        if srv is None:
            srv = _SRV["s"] = ls.LangServer(conn=conn, settings=_settings())
        srv.conn, srv.running, srv.post_messages = conn, True, []
    else:
        srv = ls.LangServer(conn=conn, settings=_settings())
    seen = []
    real_handle = srv.handle

    def handle(req):
        seen.append(req)
        if not record_only:
            return real_handle(req)

    srv.handle = handle
    srv.run()
    return seen, out.getvalue(), raw.pos


_SET = None
_SRV = {}


def _settings():
    global _SET
    if _SET is None:
        reset_globals()
        use_fake_pool(True)
        _SET = parse_cli([])
    return dict(_SET)


def _msg(k, payload):
    if k % 2 == 0:
        return {"jsonrpc": "2.0", "id": k, "method": "x/echo", "params": {"s": payload, payload: k}}
    return {"jsonrpc": "2.0", "method": "x/note", "params": {"s": payload}}


def reader_streams(payloads, nmsgs_list):
    for hdr in ("L", "LT", "TL", "l", "n", "Tu"):
        for esc in (False, True):
            for n in nmsgs_list:
                for p in payloads:
                    msgs = [_msg(k, p if k == 0 else p[::-1]) for k in range(n)]
                    yield hdr, esc, msgs


def reader_case(job, acc: Acc):
    hdr, esc, msgs, mode = job
    data = b"".join(frame(m, ascii_escape=esc, header_order=hdr) for m in msgs)
    n = len(data)
    if mode == "none":
        schedules = [()]
    elif mode == "single":
        schedules = [()] + [(i,) for i in range(1, n)]
    elif mode == "pairs":
        schedules = [(i, j) for i in range(1, n) for j in range(i + 1, n)]
    elif mode == "triples":
        schedules = [c for c in itertools.combinations(range(1, n), 3)]
    elif mode == "bytes":
        schedules = [tuple(range(1, n))]
    for cuts in schedules:
        try:
            seen, _, consumed = run_server_on_stream(data, cuts)
            obs = None
            if seen != msgs:
                obs = "messages_differ"
        except Exception as e:  # noqa
            seen, obs = repr(e), "exception:" + type(e).__name__
        acc.case(nontrivial_key=(hdr, esc, len(msgs), msgs[0]["params"]["s"], cuts), outcome=(hdr, esc, len(msgs)))
        acc.count("schedules")
        if obs:
            acc.violation(Violation(
                "reader", {"family": "reader", "header_order": hdr, "obs": obs, "chunked": bool(cuts)},
                {"header_order": hdr, "ascii_escape": esc, "messages": msgs, "cuts": list(cuts)},
                msgs, seen, what=f"headers={hdr} esc={esc} cuts={cuts[:4]}"))
    acc.sample({"reader_stream": data.decode("utf-8", "replace")[:160], "mode": mode}, cap=2)


# --------------------------------------------------------------------- uri
# "a" + U+0301 is a decomposed sequence and U+212B a singleton: both change under Unicode normalisation, and a path
# is a sequence of code points, not of glyphs
PATH_CHARS = ["a", " ", "%", "#", "?", "+", "&", "é", "\U0001F600", "\u0301", "\u212b", "\\"]   # (a backslash is an ordinary character of a POSIX file name)
URI_OK = re.compile(r"^file://(?:/|[A-Za-z0-9._~!$&'()*+,;=:@-]|%[0-9A-Fa-f]{2})*$")


def segments(maxlen=2):
    for n in range(1, maxlen + 1):
        for t in itertools.product(PATH_CHARS, repeat=n):
            s = "".join(t)
            yield s


def uri_paths(nseg):
    segs = list(segments())
    for n in range(1, nseg + 1):
        for t in itertools.product(segs, repeat=n):
            yield "/" + "/".join(t)


def _client_spellings(p):
    from urllib.parse import quote

    # lower-case hex escapes; sub-delims left unescaped; everything escaped
    q = quote(p)
    yield "file://" + re.sub(r"%[0-9A-F]{2}", lambda m: m.group(0).lower(), q)
    yield "file://" + quote(p, safe="/+&")
    yield "file://" + "".join(c if c == "/" else "".join(f"%{b:02X}" for b in c.encode()) for c in p)


def uri_chunk(paths, acc: Acc):
    from fortls.jsonrpc import path_from_uri, path_to_uri

    for p in paths:
        # a trailing blank segment etc. is still a valid POSIX path; resolve() must not touch it
        u = path_to_uri(p)
        back = path_from_uri(u)
        acc.case(nontrivial_key=p if re.search(r"[^a/]", p) else None, outcome=len(u))
        obs = None
        if back != p:
            obs = "roundtrip"
        elif not URI_OK.match(u):
            obs = "uri_not_rfc3986"
        if obs is None:
            for cu in _client_spellings(p):
                if path_from_uri(cu) != p:
                    obs, u, back = "client_spelling", cu, path_from_uri(cu)
                    break
        if obs:
            acc.violation(Violation("uri", {"family": "uri", "obs": obs}, {"path": p}, p, {"uri": u, "back": back},
                                    what=f"path {p!r}"))
    acc.sample({"uri_path": paths[len(paths) // 2]}, cap=2)


def chunked(it, n):
    buf = []
    for x in it:
        buf.append(x)
        if len(buf) >= n:
            yield buf
            buf = []
    if buf:
        yield buf


# ------------------------------------------------------ e2e through handlers
E2E_FILES = {
    "café \U0001F600.f90": "module mé\n  !> doc € \U0001F600 \"q\" \\ back\n  integer :: v  !< träiling\nend module mé\n",
    "a b%c#d.f90": "subroutine s\n  ! plain\n  integer :: w\nend subroutine s\n",
}


def e2e_family(acc: Acc):
    """Real handlers producing non-ASCII payloads and paths; the whole output
    stream must be recovered by the independent reader and URIs must map back."""
    import os

    from fortls.jsonrpc import path_from_uri, path_to_uri

    from ..driver import Scratch, server_on

    with Scratch("c16 é") as sc:
        for name, text in E2E_FILES.items():
            sc.write(name, text)
        s = server_on(sc.path)
        reqs = []
        for name, text in E2E_FILES.items():
            p = os.path.join(sc.path, name)
            s.open(p)
            reqs.append(("textDocument/documentSymbol", {"textDocument": {"uri": path_to_uri(p)}}))
            for ln, line in enumerate(text.split("\n")):
                for col in range(0, len(line) + 1, 3):
                    reqs.append(("textDocument/hover", s.tdpp(p, ln, col)))
                    reqs.append(("textDocument/definition", s.tdpp(p, ln, col)))
        reqs.append(("workspace/symbol", {"query": ""}))
        for method, params in reqs:
            s._id += 1
            s.srv.handle({"jsonrpc": "2.0", "id": s._id, "method": method, "params": params})
            data = s.take_bytes()
            acc.case(nontrivial_key=(method, repr(params)), outcome=len(data))
            try:
                frames = parse_frames(data)
            except FrameError as e:
                acc.violation(Violation("e2e_writer", {"family": "e2e_writer", "obs": "frame_error"},
                                        {"method": method, "params": params}, None, str(e)))
                continue
            # every uri in the answer must map back to one of the files
            def walk(o):
                if isinstance(o, dict):
                    for k, v in o.items():
                        if k == "uri" and isinstance(v, str):
                            yield v
                        else:
                            yield from walk(v)
                elif isinstance(o, list):
                    for v in o:
                        yield from walk(v)
            for (_, _, obj) in frames:
                for u in walk(obj):
                    back = path_from_uri(u)
                    if os.path.basename(back) not in E2E_FILES or not os.path.isfile(back):
                        acc.violation(Violation("e2e_writer", {"family": "e2e_writer", "obs": "uri_roundtrip"},
                                                {"method": method, "params": params}, "an indexed file", back))


# ----------------------------------------------------- entry-point conformance
def conformance(ctx, n):
    """A slice of the reader streams through the real executable: the bytes it
    writes must equal what the in-process run() writes."""
    ok = 0
    acc = Acc()
    streams = list(reader_streams(["a", "é\U0001F600", '"\\'], [2]))[:n]
    for hdr, esc, msgs in streams:
        msgs = msgs + [{"jsonrpc": "2.0", "method": "exit"}]
        data = b"".join(frame(m, ascii_escape=esc, header_order=hdr) for m in msgs)
        _, want, _ = run_server_on_stream(data, (), record_only=False)
        got, rc = run_subprocess(data, [])
        acc.case(nontrivial_key=(hdr, esc, repr(msgs)), outcome=len(got))
        if got == want:
            ok += 1
        else:
            acc.violation(Violation("conformance", {"family": "conformance", "obs": "subprocess_differs", "header_order": hdr},
                                    {"header_order": hdr, "ascii_escape": esc, "messages": msgs}, want.decode("utf-8", "replace"),
                                    got.decode("utf-8", "replace")))
    return acc, ok


# -------------------------------------------------------------------- main
def main(ctx):
    q = ctx.quick
    ctx.rule = ("writer: all strings of length<=N over 9 encoding-class representatives in 5 payload positions; reader: "
                "message streams x 3 header layouts x 2 body encodings x chunk schedules (none / every single cut / every "
                "pair / per byte); uri: all paths of <=K segments of <=2 chars over 9 path characters. Non-trivial = "
                "contains a non-ASCII/control/reserved character or a real cut; distinct by full case.")
    ctx.assumptions = ["input streams are correctly framed (the statement's precondition)",
                       "POSIX paths (os.name != 'nt')"]
    # writer
    acc = core.pmap(lambda chunk, a: [writer_case(s, a) for s in chunk],
                    chunked(strings(3 if q else 4), 64), chunk=4, label="C16/writer")
    ctx.add_family("writer", acc, max_len=3 if q else 4)
    e2e = Acc()
    e2e_family(e2e)
    ctx.add_family("e2e_writer", e2e)
    # reader
    payloads1 = ["a", "é", "\U0001F600", " ", '"\\', "\x01\x7f"]
    jobs = []
    for hdr, esc, msgs in reader_streams(payloads1, [1, 2, 3]):
        jobs.append((hdr, esc, msgs, "single"))
        jobs.append((hdr, esc, msgs, "bytes"))
    for hdr, esc, msgs in reader_streams([s for s in strings(2)], [1]):
        jobs.append((hdr, esc, msgs, "none"))
    for hdr, esc, msgs in reader_streams(payloads1, [1, 2] if q else [1, 2, 3]):
        jobs.append((hdr, esc, msgs, "pairs"))
    if not q:
        for hdr, esc, msgs in reader_streams(["é\U0001F600"], [1]):
            jobs.append((hdr, esc, msgs, "triples"))
    acc = core.pmap(reader_case, jobs, chunk=1, budget_s=300, label="C16/reader")
    ctx.add_family("reader", acc, cut_bound="<=2 cuts and per-byte")
    # uri
    acc = core.pmap(uri_chunk, chunked(uri_paths(2 if q else 3), 2000), chunk=1, label="C16/uri")
    ctx.add_family("uri", acc, segments=2 if q else 3)
    cacc, ok = conformance(ctx, 6 if q else 18)
    ctx.add_family("conformance", cacc, identical_transcripts=ok)
    ctx.coverage_extra["subprocess_transcripts_identical"] = ok


def replay(rec):
    acc = Acc()
    c = rec["case"]
    fam = rec["family"]
    if fam == "writer":
        writer_case(c["string"], acc)
    elif fam == "reader":
        data = b"".join(frame(m, ascii_escape=c["ascii_escape"], header_order=c["header_order"]) for m in c["messages"])
        seen, _, _ = run_server_on_stream(data, tuple(c["cuts"]))
        if seen != c["messages"]:
            return {"expected": c["messages"], "observed": seen}
    elif fam == "uri":
        uri_chunk([c["path"]], acc)
    elif fam == "e2e_writer":
        e2e_family(acc)
    else:
        a, _ = conformance(None, 18)
        acc.merge(a)
    return [v.to_json("C16") for v in acc.violations] or None
