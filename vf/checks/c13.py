"""C13 — the index is invariant under meaning-preserving re-layout of the source.

Enumeration of (program, transformation): every single transformation at every
statement and every token boundary of every canonical program (thorough: also
every global x local pair and pairs of local transformations), plus the line-level
transformations on the repository's sample sources.  Oracle: the token-keyed query
battery of the transformed text equals that of the original after mapping
positions through the layout's exact token map (lines shift by exactly the number
of lines inserted above) and folding case where the transformation changes case.
A transformed text that gfortran rejects is not counted as meaning-preserving.
"""
from __future__ import annotations

import os
import re
import subprocess

from .. import core, layout, programs
from ..core import Acc, Violation
from ..driver import Server, worker_scratch

LEVEL = "exploration"
IDENT = re.compile(r"[A-Za-z_]\w*$")
KEYWORDS_NOQUERY = set()


# ------------------------------------------------------- token-keyed battery
class Reverse:
    """(line, col) of a rendering -> canonical token / statement."""

    def __init__(self, stmts, rend: layout.Rendered):
        self.by_line = {}
        for (s, t), (ln, col) in rend.tokpos.items():
            a, b, tok = stmts[s].toks[t]
            self.by_line.setdefault(ln, []).append((col, col + (b - a), s, t))
        self.line_stmts = {}
        for s, ln in rend.stmt_line.items():
            self.line_stmts.setdefault(ln, []).append(s)
        for (s, t), (ln, col) in rend.tokpos.items():
            if s not in self.line_stmts.setdefault(ln, []):
                self.line_stmts[ln].append(s)
        self.nlines = len(re.split(r"\r\n|\n|\r", rend.text))

    def tok(self, line, col, end=False):
        hits = [(c0, c1, s, t) for (c0, c1, s, t) in self.by_line.get(line, []) if c0 <= col <= c1]
        if hits:
            # at a boundary between adjacent tokens a range start belongs to the token that
            # starts there, a range end to the token that ends there
            c0, c1, s, t = (min(hits, key=lambda h: h[0]) if end else max(hits, key=lambda h: h[0]))
            return ("t", s, t, col - c0)
        # not on a token (fortls answers line:0 when it cannot locate the name): line granularity
        return ("L", tuple(self.stmts_on(line)))

    def stmts_on(self, line):
        return sorted(self.line_stmts.get(line, []))


def token_battery(stmts, rend: layout.Rendered, fname, light_far_from=None):
    """Index `rend.text` with a fresh real server and query it token by token.
    Returns (dict keyed by canonical token, Reverse)."""
    sc = worker_scratch("c13")
    sc.wipe()
    root = os.path.realpath(sc.path)
    path = os.path.join(root, fname)
    with open(path, "w", newline="") as f:
        f.write(rend.text)
    s = Server([])
    s.initialize(root)
    rev = Reverse(stmts, rend)
    out = {}
    diag_msgs = s.save(path)
    diags = []
    for o in diag_msgs:
        if o.get("method") == "textDocument/publishDiagnostics":
            for d in o["params"]["diagnostics"]:
                st = d["range"]["start"]
                diags.append((d["message"], d.get("severity"), ("L", tuple(rev.stmts_on(st["line"])))))
        elif "id" in o and "method" not in o:
            diags.append(("<error response to notification>", 0, str(o)[:80]))
    out["diagnostics"] = diags
    syms = s.result("textDocument/documentSymbol", {"textDocument": Server.tdpp(path, 0, 0)["textDocument"]})
    symn = []
    if isinstance(syms, list):
        for y in syms:
            r = y["location"]["range"]
            symn.append((y["name"], y["kind"], y.get("containerName"), ("L", tuple(rev.stmts_on(r["start"]["line"]))),
                         ("L", tuple(rev.stmts_on(r["end"]["line"])))))
    else:
        symn = syms
    out["symbols"] = symn
    f = s.srv.workspace.get(path)
    out["fixed_flag"] = bool(f.fixed) if f is not None else None

    def loc(o):
        if o is None:
            return None
        if isinstance(o, tuple):
            return o
        r = o["range"]
        same = os.path.basename(o.get("uri", fname)) == fname
        return (same, rev.tok(r["start"]["line"], r["start"]["character"]), rev.tok(r["end"]["line"], r["end"]["character"], end=True))

    for (sidx, t), (ln, col) in sorted(rend.tokpos.items()):
        a, b, tok = stmts[sidx].toks[t]
        if not IDENT.match(tok):
            continue
        mid = col + (b - a) // 2
        k = (sidx, t)
        # the target of go-to-definition is compared as an entity: the statement it lies in
        dres = s.result("textDocument/definition", Server.tdpp(path, ln, mid))
        if isinstance(dres, dict):
            dres = (os.path.basename(dres.get("uri", fname)) == fname, ("L", tuple(rev.stmts_on(dres["range"]["start"]["line"]))))
        out[("def", k)] = dres
        h = s.result("textDocument/hover", Server.tdpp(path, ln, mid))
        out[("hover", k)] = re.sub(r"\s+", "", h["contents"]["value"]) if isinstance(h, dict) and "contents" in h else h
        heavy = light_far_from is None or abs(sidx - light_far_from) <= 2
        if heavy:
            r = s.result("textDocument/references", Server.tdpp(path, ln, mid, context={"includeDeclaration": True}))
            out[("refs", k)] = sorted(map(repr, (loc(x) for x in r))) if isinstance(r, list) else r
    return out, rev


def fold(o):
    if isinstance(o, str):
        return o.lower()
    if isinstance(o, (list, tuple)):
        return type(o)(fold(x) for x in o)
    if isinstance(o, dict):
        return {fold(k): fold(v) for k, v in o.items()}
    return o


def line_classes(o, rev_t: Reverse, rend_t):
    """Rewrite ("L", (stmts...)) of the *original* into the statement classes of the
    transformed layout (statements sharing a physical line there)."""
    if isinstance(o, tuple) and len(o) == 2 and o[0] in ("L", "l"):
        cls = set()
        for s in o[1]:
            ln = rend_t.stmt_line.get(s)
            cls.update(rev_t.stmts_on(ln) if ln is not None else [s])
        return ("L", tuple(sorted(cls)))
    if isinstance(o, (list, tuple)):
        return type(o)(line_classes(x, rev_t, rend_t) for x in o)
    return o


def compare(orig, trans, rev_t, rend_t, case_changed, only_keys=None):
    """[(key, original, transformed)] differences."""
    diffs = []
    for k in orig:
        if only_keys is not None and k not in only_keys and not isinstance(k, str):
            continue
        if k not in trans:
            if isinstance(k, tuple) and k[0] in ("refs", "comp", "sig"):
                continue  # heavy queries are only asked near the transformed statement
            diffs.append((k, orig[k], "<absent>"))
            continue
        a, b = orig[k], trans[k]
        if (isinstance(k, tuple) and k[0] == "def") or k in ("symbols", "diagnostics"):
            a = line_classes(a, rev_t, rend_t)
        if case_changed:
            a, b = fold(a), fold(b)
        if k in ("symbols", "diagnostics"):
            a, b = sorted(map(repr, a)) if isinstance(a, list) else a, sorted(map(repr, b)) if isinstance(b, list) else b
        elif isinstance(k, tuple) and k[0] == "refs" and isinstance(a, list) and isinstance(b, list):
            a, b = sorted(a), sorted(b)
        if a != b:
            diffs.append((k, a, b))
    return diffs


# ------------------------------------------------------------- transformations
def gfortran_ok(text, fixed=False):
    sc = worker_scratch("c13")
    p = os.path.join(sc.path, "gf_check.f" if fixed else "gf_check.f90")
    with open(p, "w", newline="") as f:
        f.write(text)
    r = subprocess.run(["gfortran", "-fsyntax-only", "-std=f2008", "-J", sc.path, p], capture_output=True, text=True)
    os.unlink(p)
    return r.returncode == 0


def single_transformations(stmts, quick):
    """[(name, anchor statement or None, Layout kwargs)]"""
    T = []
    for eol, nm in (("\r\n", "crlf"), ("\r", "cr")):
        T.append((f"eol:{nm}", None, {"eol": eol}))
    T.append(("trailing_blanks", None, {"trailing_blanks": 2}))
    for c in ("upper", "lower", "alt"):
        T.append((f"case:{c}", None, {"case": c}))
    code = [i for i, s in enumerate(stmts) if s.kind == "code"]
    for i in range(len(stmts)):
        T.append(("blank_above", i, {"blank_above": {i: 1}}))
        T.append(("comment_above", i, {"comment_above": {i: 1}}))
    T.append(("blank_above_x3_top", 0, {"blank_above": {0: 3}}))
    for i in code:
        T.append(("trailing_comment", i, {"trailing_comment": {i}}))
        if i + 1 < len(stmts) and stmts[i + 1].kind == "code":
            T.append(("join", i, {"join_next": {i}}))
            if not quick or i % 3 == 0:
                T.append(("join_tight", i, {"join_next": {i}, "join_sep": ";"}))
        for t in range(1, len(stmts[i].toks)):
            for k, style in enumerate(layout.SPLIT_STYLES):
                if quick and k >= 2 and (i + t) % 4:
                    continue
                T.append((f"split:{style}", i, {"split": {i: [(t, style)]}}))
    return T


def pair_transformations(stmts):
    """global o local, and pairs of local transformations at two different statements."""
    singles = single_transformations(stmts, quick=True)
    glob = [x for x in singles if x[1] is None]
    loc = [x for x in singles if x[1] is not None and x[0] in ("blank_above", "comment_above", "trailing_comment", "join", "split:plain", "split:lead_amp")]
    out = []
    for g in glob:
        for l in loc[::3]:
            kw = dict(g[2])
            kw.update(l[2])
            out.append((g[0] + "+" + l[0], l[1], kw))
    # two local transformations at statements a < b (every 5th local x every 7th local)
    for ia, a in enumerate(loc[::5]):
        for b in loc[3::7]:
            if a[1] == b[1]:
                continue
            kw = {}
            for src in (a[2], b[2]):
                for key, val in src.items():
                    if isinstance(val, dict):
                        kw.setdefault(key, {}).update(val)
                    elif isinstance(val, set):
                        kw.setdefault(key, set()).update(val)
                    else:
                        kw[key] = val
            out.append((a[0] + "+" + b[0], b[1], kw))
    return out


_ORIG = {}


def variant_case(job, acc: Acc):
    pname, tname, anchor, kw = job
    stmts = _ORIG.get(("stmts", pname))
    if stmts is None:
        stmts = _ORIG[("stmts", pname)] = layout.parse_program(programs.PROGRAMS[pname])
    fname = pname + ".f90"
    canon = layout.render(stmts)
    if ("bat", pname) not in _ORIG:
        _ORIG[("bat", pname)] = token_battery(stmts, canon, fname)[0]
    orig = _ORIG[("bat", pname)]
    lay = layout.Layout(**kw)
    rend = layout.render(stmts, lay)
    trans, rev_t = token_battery(stmts, rend, fname, light_far_from=anchor)
    case_changed = lay.case != "asis"
    diffs = compare(orig, trans, rev_t, rend, case_changed)
    acc.case(nontrivial_key=(pname, tname, anchor, repr(sorted(lay.describe().items()))), outcome=(pname, tname.split(":")[0]))
    if diffs and not gfortran_ok(rend.text):
        acc.count("variants_rejected_by_gfortran")
        return
    seen = set()
    for k, a, b in diffs:
        kind = k if isinstance(k, str) else k[0]
        if kind in seen:
            continue
        seen.add(kind)
        first = stmts[anchor].toks[0][2].lower() if anchor is not None and stmts[anchor].kind == "code" else ""
        nxt = ""
        if anchor is not None and anchor + 1 < len(stmts) and stmts[anchor + 1].kind == "code":
            nxt = stmts[anchor + 1].toks[0][2].lower()
        qrel, after_break = "n/a", False
        if isinstance(k, tuple) and isinstance(k[1], tuple) and anchor is not None:
            qs, qt = k[1]
            qrel = "anchor" if qs == anchor else ("next" if qs == anchor + 1 else "other")
            brk = [t for t, _ in lay.split.get(anchor, [])]
            after_break = bool(brk) and qs == anchor and qt >= min(brk)
        acc.violation(Violation(
            "programs", {"family": "programs", "program": pname, "transform": tname, "kind": kind, "stmt_first": first, "next_first": nxt,
                         "query_in": qrel, "query_after_break": after_break,
                         "splits_declaring_stmt": next((w for w in (stmts[i2].toks[0][2].lower() for i2 in sorted(lay.split) if stmts[i2].kind == "code")
                                                        if w in ("pure", "procedure", "associate")), ""),
                         "query_stmt_first": (stmts[k[1][0]].toks[0][2].lower() if isinstance(k, tuple) and isinstance(k[1], tuple)
                                              and stmts[k[1][0]].kind == "code" else ""),
                         "t_split": ",".join(sorted({st for v in lay.split.values() for _, st in v})),
                         "t_join": bool(lay.join_next),
                         "t_global": ",".join(x for x in (("case:" + lay.case) if lay.case != "asis" else "", "eol" if lay.eol != "\n" else "",
                                                          "trailing_blanks" if lay.trailing_blanks else "") if x)},
            {"program": pname, "transform": tname, "anchor": anchor, "layout": lay.describe()},
            a if not isinstance(a, list) else a[:6], b if not isinstance(b, list) else b[:6],
            what=f"{pname} {tname} at statement {anchor} ({first}): {kind} differs at {k}"))
    if len(acc.samples) < 2:
        acc.sample({"program": pname, "transform": tname, "statement": anchor, "text_excerpt": rend.text[:300]})


# ------------------------------------------------------------- sample sources
def sample_case(job, acc: Acc):
    """Line-level transformations of a repository sample source: global ones and
    an inserted blank/comment line at line i.  Compared through documentSymbol,
    diagnostics and definition at every identifier (positions shifted by the
    inserted line)."""
    from ..battery import occurrences

    rel, tname, arg = job
    base = os.path.join(core.REPO, "test", "test_source", rel)
    with open(base, encoding="utf-8", errors="replace") as fh:
        text = fh.read()
    lines = text.split("\n")
    fixed = rel.endswith((".f", ".F"))
    shift_from = None
    if tname == "crlf":
        new = "\r\n".join(lines)
    elif tname == "trailing_blanks":
        new = "\n".join(ln + "  " if ln.strip() and not ln.rstrip().endswith("&") and len(ln) < 70 else ln for ln in lines)
    elif tname in ("blank_above", "comment_above"):
        ins = "" if tname == "blank_above" else ("C inserted comment" if fixed else "! inserted comment")
        new = "\n".join(lines[:arg] + [ins] + lines[arg:])
        shift_from = arg
    else:
        raise core.HarnessError(tname)

    def observe(txt):
        sc = worker_scratch("c13")
        sc.wipe()
        root = os.path.realpath(sc.path)
        p = os.path.join(root, os.path.basename(rel))
        with open(p, "w", newline="") as f:
            f.write(txt)
        s = Server([])
        s.initialize(root)
        msgs = s.save(p)
        d = [(x["message"], x.get("severity"), x["range"]["start"]["line"]) for o in msgs if o.get("method") == "textDocument/publishDiagnostics"
             for x in o["params"]["diagnostics"]]
        y = s.result("textDocument/documentSymbol", {"textDocument": Server.tdpp(p, 0, 0)["textDocument"]})
        syms = [(v["name"], v["kind"], v.get("containerName"), v["location"]["range"]["start"]["line"], v["location"]["range"]["end"]["line"]) for v in y] if isinstance(y, list) else y
        return s, p, d, syms

    def sh(ln):
        return ln + 1 if shift_from is not None and ln >= shift_from else ln

    s1, p1, d1, y1 = observe(text)
    s2, p2, d2, y2 = observe(new)
    acc.case(nontrivial_key=(rel, tname, arg), outcome=(tname, len(y1) if isinstance(y1, list) else 0))
    want_d = sorted((m, sv, sh(ln)) for m, sv, ln in d1)
    want_y = sorted((n, k, c, sh(a), sh(b)) for n, k, c, a, b in y1) if isinstance(y1, list) else y1
    bad = []
    if want_d != sorted(d2):
        bad.append(("diag", want_d[:5], sorted(d2)[:5]))
    if want_y != (sorted(y2) if isinstance(y2, list) else y2):
        bad.append(("symbols", [x for x in want_y if x not in y2][:5], [x for x in y2 if x not in want_y][:5]))
    if not bad:
        # definitions at every identifier
        for (ln, a, b, w) in occurrences(text, fixed):
            r1 = s1.result("textDocument/definition", Server.tdpp(p1, ln, (a + b) // 2))
            r2 = s2.result("textDocument/definition", Server.tdpp(p2, sh(ln), (a + b) // 2))

            def nrm(r, f):
                if not isinstance(r, dict):
                    return r
                return (os.path.basename(r["uri"]), f(r["range"]["start"]["line"]), r["range"]["start"]["character"], r["range"]["end"]["character"])
            if nrm(r1, sh) != nrm(r2, lambda x: x):
                bad.append(("def", (ln, w, nrm(r1, sh)), nrm(r2, lambda x: x)))
                break
    for kind, a, b in bad:
        acc.violation(Violation("samples", {"family": "samples", "file": rel, "transform": tname, "kind": kind},
                                {"file": rel, "transform": tname, "arg": arg}, a, b, what=f"{rel} {tname} {arg}: {kind}"))


def sample_jobs(quick):
    from . import c09

    files = c09.list_sources()
    for rel in files:
        if rel.startswith("pp/") or rel.endswith((".F90", ".F")):
            continue  # preprocessed sources: line insertion interacts with directive regions (covered by C08)
        with open(os.path.join(core.REPO, "test", "test_source", rel), encoding="utf-8", errors="replace") as fh:
            n = len(fh.read().split("\n"))
        yield (rel, "crlf", None)
        yield (rel, "trailing_blanks", None)
        step = 5 if quick else 1
        for i in range(0, n, step):
            yield (rel, "blank_above", i)
            yield (rel, "comment_above", i)


# ------------------------------------------------------- diagnosed programs
# The canonical programs are valid and carry no diagnostics.  Here: programs with exactly one word-anchored diagnostic
# (the templates of C09), the flagged word kept on one line, on a last or on a *middle* continuation line, followed by
# nothing / trailing blanks / an ordinary comment / CRLF.  The diagnostic must name the same message and cover the
# same word in every layout.
def diag_layouts():
    from . import c09

    for name in c09.DIAG_TEMPLATES:
        for place in ("one_line", "last_line", "middle_line"):
            for tail in ("", "   ", " ! a trailing comment", "  ! c & d"):
                for eol in ("\n", "\r\n"):
                    if place == "one_line" and tail.strip():
                        continue
                    yield (name, place, tail, eol)


def diag_layout_text(case):
    from . import c09

    name, place, tail, eol = case
    out = []
    for ln in c09.DIAG_TEMPLATES[name]:
        if "@" not in ln:
            out.append(ln)
            continue
        head, rest = ln.split("@")
        word = re.match(r"\w+", rest).group(0)
        after = rest[len(word):]
        if place == "one_line":
            out.append(head + word + after + tail)
        elif place == "last_line" or not after.strip():
            out.append(head.rstrip() + " &")
            out.append("        " + word + after + tail)
        else:
            out.append(head.rstrip() + " &")
            out.append("        " + word + " &" + tail)
            out.append("        " + after.strip())
    return eol.join(out) + eol, word


def diag_layout_case(case, acc: Acc):
    text, word = diag_layout_text(case)
    base_text, _ = diag_layout_text((case[0], "one_line", "", "\n"))

    def diags_of(t):
        sc = worker_scratch("c13d")
        sc.wipe()
        root = os.path.realpath(sc.path)
        path = os.path.join(root, "d.f90")
        with open(path, "w", newline="") as f:
            f.write(t)
        s = Server([])
        s.initialize(root)
        lines = re.split(r"\r\n|\n", t)
        got = []
        for o in s.open(path):
            if o.get("method") == "textDocument/publishDiagnostics":
                for d in o["params"]["diagnostics"]:
                    r = d["range"]
                    cov = lines[r["start"]["line"]][r["start"]["character"]:r["end"]["character"]] if r["start"]["line"] == r["end"]["line"] and r["start"]["line"] < len(lines) else None
                    got.append((d["message"], d.get("severity"), (cov or "").lower()))
        return sorted(got)

    want = diags_of(base_text)
    got = diags_of(text)
    acc.case(nontrivial_key=case if want else None, outcome=(case[0], len(want)))
    if got != want:
        acc.violation(Violation("diagnosed", {"family": "diagnosed", "class": case[0], "place": case[1], "tail": case[2].strip()[:1] or ("blanks" if case[2] else ""),
                                              "crlf": case[3] != "\n", "kind": "diag"},
                                {"case": list(case), "text": text}, want, got,
                                what=f"{case}: diagnostics (message, severity, covered text) {got} differ from the one-line layout's {want}"))
    if len(acc.samples) < 1 and case[1] == "middle_line":
        acc.sample({"case": list(case), "text": text})


# ------------------------------------------------ re-layout of a file the server already holds
EDGE_LAYOUTS = {"lead1": lambda t: "\n" + t, "lead2": lambda t: "\n\n" + t, "lead_blanks": lambda t: "   \n" + t, "lead_comment": lambda t: "! moved\n" + t,
                "trail2": lambda t: t + "\n\n", "lead_and_trail": lambda t: "\n" + t + "\n", "no_final_break": lambda t: t.rstrip("\n"),
                "lead_tab_line": lambda t: " \n \n" + t, "crlf": lambda t: t.replace("\n", "\r\n")}


def _outline_of(s, path):
    r = s.result("textDocument/documentSymbol", {"textDocument": Server.tdpp(path, 0, 0)["textDocument"]})
    if not isinstance(r, list):
        return r
    return sorted((x["name"].lower(), x["kind"], x["location"]["range"]["start"]["line"], x["location"]["range"]["end"]["line"]) for x in r)


def session_layout_case(job, acc: Acc):
    """The file is re-laid-out on disk (blank / comment lines added before the first or after the last statement, line
    ends changed) while the server holds it, and the server is told (didSave, or didOpen, or didOpen + didClose): the
    outline is that of the new text, as a fresh server gives it - every line shifted by the lines added above."""
    pname, lname, delivery = job
    text = programs.PROGRAMS[pname]
    new = EDGE_LAYOUTS[lname](text)
    sc = worker_scratch("c13s")
    sc.wipe()
    root = os.path.realpath(os.path.join(sc.path, "w"))
    os.makedirs(root)
    path = os.path.join(root, pname + ".f90")
    with open(path, "w", newline="") as f:
        f.write(text)
    s = Server([])
    s.initialize(root)
    before = _outline_of(s, path)
    with open(path, "w", newline="") as f:
        f.write(new)
    if delivery == "save":
        s.save(path)
    else:
        s.open(path)
        if delivery == "open_close":
            s.close(path)
    got = _outline_of(s, path)
    f2 = Server([])
    f2.initialize(root)
    want = _outline_of(f2, path)
    acc.case(nontrivial_key=job, outcome=(lname, delivery, want != before))
    if got != want:
        acc.violation(Violation("session_layout", {"family": "session_layout", "program": pname, "layout": lname, "delivery": delivery, "obs": "outline_is_not_that_of_the_new_text"},
                                {"job": list(job)}, want[:6] if isinstance(want, list) else want, got[:6] if isinstance(got, list) else got,
                                what=f"{pname} re-laid-out on disk ({lname}), {delivery}: outline differs from a fresh server's"))


def main(ctx):
    q = ctx.quick
    ctx.rule = ("programs: 6 canonical programs (together every statement kind) x every single transformation — 2 line "
                "endings, trailing blanks, 3 case modes, blank/comment line above every statement, trailing comment and ';' "
                "join at every statement, '&' continuation at every token boundary in 4 styles (quick: 2 styles everywhere, "
                "the other 2 at every 4th boundary); thorough adds global x local pairs and pairs of local transformations. "
                "samples: CRLF, trailing blanks and a blank/comment line inserted at every (quick: every 5th) line of every "
                "non-preprocessed sample source. Non-trivial: all; distinct by (program, transformation, place).")
    ctx.assumptions = ["a transformed text rejected by gfortran -std=f2008 is not a meaning-preserving re-layout and is skipped",
                       "hover text is compared modulo white space; results are case-folded when the transformation changes case",
                       "references/completion/signatureHelp are asked within 2 statements of the transformed one, "
                       "definition/hover/symbols/diagnostics everywhere"]
    jobs = []
    for pname in programs.PROGRAMS:
        stmts = layout.parse_program(programs.PROGRAMS[pname])
        for tname, anchor, kw in single_transformations(stmts, q):
            jobs.append((pname, tname, anchor, kw))
        if not q:
            for tname, anchor, kw in pair_transformations(stmts):
                jobs.append((pname, tname, anchor, kw))
    acc = core.pmap(variant_case, jobs, chunk=8, budget_s=120, label="C13/programs")
    ctx.add_family("programs", acc, variants=len(jobs))
    sacc = core.pmap(sample_case, sample_jobs(q), chunk=8, budget_s=120, label="C13/samples")
    ctx.add_family("samples", sacc)
    zacc = core.pmap(session_layout_case, [(pn, ln, d) for pn in programs.PROGRAMS for ln in EDGE_LAYOUTS for d in ("save", "open", "open_close")], chunk=4, budget_s=120,
                     label="C13/session_layout")
    ctx.add_family("session_layout", zacc, what="every corpus program re-laid-out on disk at its edges (9 layouts: blank / comment lines before the first statement, after the "
                   "last, no final line break, CRLF) while the server holds it x 3 ways of telling the server: the outline equals a fresh server's on the new text")
    dacc = core.pmap(diag_layout_case, list(diag_layouts()), chunk=4, budget_s=120, label="C13/diagnosed")
    ctx.add_family("diagnosed", dacc, what="6 programs with one word-anchored diagnostic x word on one line / last / middle continuation line "
                   "x nothing / blanks / comments after it x LF / CRLF; (message, severity, covered word) compared with the one-line layout")


def replay(rec):
    c = rec["case"]
    acc = Acc()
    if rec["family"] == "session_layout":
        session_layout_case(tuple(c["job"]), acc)
        return [v.to_json("C13") for v in acc.violations] or None
    if rec["family"] == "diagnosed":
        diag_layout_case(tuple(c["case"]), acc)
        return [v.to_json("C13") for v in acc.violations] or None
    if rec["family"] == "programs":
        lay = c["layout"]
        kw = {}
        for k, v in lay.items():
            if k in ("blank_above", "comment_above"):
                kw[k] = {int(a): b for a, b in v.items()}
            elif k == "split":
                kw[k] = {int(a): [tuple(x) for x in b] for a, b in v.items()}
            elif k in ("trailing_comment", "join_next"):
                kw[k] = set(v)
            else:
                kw[k] = v
        variant_case((c["program"], c["transform"], c["anchor"], kw), acc)
    else:
        sample_case((c["file"], c["transform"], c["arg"]), acc)
    return [v.to_json("C13") for v in acc.violations] or None
