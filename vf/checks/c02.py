"""C02 — server-side document text equals the client's after any edit sequence.

Explicit-state BFS.  State = the client's document text (a string); transition =
one LSP content change (every start<=end range over every valid position x every
inserted text, plus the range-less whole-document change).  Every transition is
executed on the real FortranFile.apply_change (unit seam) and, in a second
family, through real textDocument/didChange notifications handled by the real
LangServer.  Oracle: refdoc (string slicing).
"""
from __future__ import annotations

import os

from .. import core, refdoc
from ..core import Acc, Violation
from ..driver import Scratch, Server, server_on

LEVEL = "model_checking"

INIT_DOCS = ["", "a", "ab\ncd", "ab\ncd\n", "ab\r\ncd\r\n", "a\rb", "abc\n\ndef\n"]
# (one text may mix the three kinds of line break)
TEXTS_FULL = ["", "x", "\n", "\r\n", "\r", "x\n", "\ny", "x\ny", "x\r\ny\r\n", "p\n\nq", "a\r\nb\nc", "a\nb\rc\r\n"]
TEXTS_REDUCED = ["", "x", "\n", "x\n", "\ny", "\r\n", "a\r\nb\nc"]


def _mk_change(rng, text):
    if rng is None:
        return {"text": text}
    (sl, sc), (el, ec) = rng
    return {"range": {"start": {"line": sl, "character": sc}, "end": {"line": el, "character": ec}}, "text": text}


def all_changes(text, ins_texts):
    pos = refdoc.positions(text)
    for i, a in enumerate(pos):
        for b in pos[i:]:
            for t in ins_texts:
                yield _mk_change((a, b), t)
    for t in ins_texts:
        yield _mk_change(None, t)


def _tags(family, doc, change, server_lines, client_lines, exc=None):
    ins = change.get("text", "")
    if exc is not None:
        obs = "exception:" + exc
    elif len(server_lines) != len(client_lines):
        obs = f"line_count{len(server_lines) - len(client_lines):+d}"
    else:
        obs = "content"
    return {
        "family": family,
        "ranged": change.get("range") is not None,
        "ins_ends_with_break": ins.endswith("\n") or ins.endswith("\r"),
        "seam_crlf": refdoc.seam_crlf(doc, change),
        "non_bmp": any(ord(c) > 0xFFFF for c in doc + ins),
        "obs": obs,
    }


# ---------------------------------------------------------------- unit seam
_file_cache = {}


def _new_file(lines):
    from fortls.parsers.internal.parser import FortranFile

    f = _file_cache.get("f")
    if f is None:
        f = FortranFile("/nonexistent/c02.f90")
        _file_cache["f"] = f
    f.set_contents(list(lines))
    return f


def initial_lines(text):
    """What didOpen makes of a file whose content is `text`: load_from_disk."""
    from fortls.parsers.internal.parser import FortranFile

    with Scratch("c02") as s:
        p = s.write("d.f90", text)
        f = FortranFile(p)
        err, _ = f.load_from_disk()
        if err:
            raise core.HarnessError(err)
        return list(f.contents_split)


def expand_state(job, acc: Acc):
    """All transitions out of one state.  job = (client_text, ins_texts, collect)"""
    from ..driver import clear_caches

    clear_caches()
    text, ins_texts, collect, family = job
    base = refdoc.split_lines(text)
    succ = set()
    for ch in all_changes(text, ins_texts):
        f = _new_file(base)
        want_text = refdoc.apply(text, ch)
        want = refdoc.split_lines(want_text)
        exc = None
        try:
            f.apply_change(ch)
            got = list(f.contents_split)
        except Exception as e:  # noqa
            exc, got = type(e).__name__, None
        nontrivial = (want_text != text, ch.get("range") is not None, len(want) != len(base))
        acc.case(nontrivial_key=(text, repr(ch)) if nontrivial[0] else None,
                 outcome=tuple(want))
        acc.count("transitions")
        if exc is None and got == want and f.nLines == len(want):
            if collect:
                succ.add(want_text)
            continue
        acc.violation(Violation(
            family=family,
            tags=_tags(family, text, ch, got or [], want, exc),
            case={"doc": text, "changes": [ch], "seam": "FortranFile.apply_change"},
            expected=want, observed=got if exc is None else f"raised {exc}",
            what=f"doc={text!r} change={ch!r}",
        ))
    acc.states.add(core.h64(text))
    if collect:
        acc.succ.extend(succ)
    if len(acc.samples) < 2:
        acc.sample({"state": text, "example_change": ch})


def _merge_succ(acc):
    out = set(acc.succ)
    acc.succ = []
    return out


def bfs_unit(ctx, depth_full, depth_reduced):
    """BFS over client texts.  Depths 1..depth_full use TEXTS_FULL, further
    depths up to depth_reduced use TEXTS_REDUCED."""
    total = Acc()
    # the initial state is what the server makes of the file on disk
    for d in INIT_DOCS:
        got = initial_lines(d)
        want = refdoc.split_lines(d)
        total.case(nontrivial_key=("open", d), outcome=tuple(want))
        if got != want:
            total.violation(Violation("unit_open", {"family": "unit_open", "obs": "content"},
                                      {"doc": d, "changes": [], "seam": "load_from_disk"}, want, got))
    seen = set(INIT_DOCS)
    frontier = list(INIT_DOCS)
    transitions = 0
    maxd = max(depth_full, depth_reduced)
    for depth in range(1, maxd + 1):
        texts = TEXTS_FULL if depth <= depth_full else TEXTS_REDUCED
        collect = depth < maxd
        jobs = [(t, texts, collect, "unit_apply_change") for t in frontier]
        acc = _pmap_states(jobs)
        succ = _merge_succ(acc)
        transitions += acc.counters.get("transitions", 0)
        ctx.log(f"unit depth {depth}: states expanded={len(frontier)} transitions={acc.counters.get('transitions', 0)} "
                f"violations={acc.viol_count} new states={len(succ - seen)}")
        total.merge(acc)
        frontier = sorted(succ - seen)
        seen |= succ
        if not frontier:
            break
    total.counters["transitions"] = transitions
    return total, len(seen), transitions


def _pmap_states(jobs):
    return core.pmap(expand_state, jobs, chunk=4, budget_s=120, label="C02/unit")


# ------------------------------------------------ histories on one live object
HIST_INIT = "ab\ncd\n"


def _hist_ops(text):
    """Menu of changes computed from the current client text (always in range)."""
    lines = refdoc.split_lines(text)
    last = max((i for i, ln in enumerate(lines) if ln), default=0)
    ops = {
        "W_init": _mk_change(None, HIST_INIT),
        "W_other": _mk_change(None, "p\nq\n"),
        "W_same": _mk_change(None, text),
        "S_ins0": _mk_change(((0, 0), (0, 0)), "x"),
        "S_insend": _mk_change(((last, len(lines[last])), (last, len(lines[last]))), "y"),
        "M_break": _mk_change(((0, len(lines[0])), (0, len(lines[0]))), "\n"),
        "M_two": _mk_change(((0, 0), (0, 0)), "a\nb"),
    }
    if lines[0]:
        ops["S_del0"] = _mk_change(((0, 0), (0, 1)), "")
        ops["S_rep0"] = _mk_change(((0, 0), (0, 1)), "z")
    if len(lines) > 1:
        ops["M_join"] = _mk_change(((0, 0), (1, 0)), "")
    return ops


HIST_NAMES = ["W_init", "W_other", "W_same", "S_ins0", "S_insend", "S_del0", "S_rep0", "M_break", "M_two", "M_join"]


def history_case(seq, acc: Acc):
    """One edit history replayed step by step on ONE real FortranFile that was
    loaded from disk (as didOpen does); memoised state is cleared first so the
    case is self-contained."""
    from fortls.parsers.internal.parser import FortranFile

    from ..driver import clear_caches

    clear_caches()
    sc = core_scratch()
    p = os.path.join(sc.path, "hist.f90")
    with open(p, "w") as f:
        f.write(HIST_INIT)
    fobj = FortranFile(p)
    fobj.load_from_disk()
    text = HIST_INIT
    done = []
    for name in seq:
        ops = _hist_ops(text)
        if name not in ops:
            return  # operation not applicable in this state: history not generated
        ch = ops[name]
        done.append(ch)
        before = text
        text = refdoc.apply(text, ch)
        want = refdoc.split_lines(text)
        exc = None
        try:
            fobj.apply_change(ch)
            got = list(fobj.contents_split)
        except Exception as e:  # noqa
            got, exc = None, type(e).__name__
        acc.count("transitions")
        if got != want or fobj.nLines != len(want):
            t = _tags("history", before, ch, got or [], want, exc)
            t["family"] = "history"
            acc.violation(Violation("history", t, {"doc": HIST_INIT, "history": list(seq), "seam": "history"},
                                    want, got, what=f"history={list(seq)}"))
            break
    acc.case(nontrivial_key=tuple(seq), outcome=text)
    if len(acc.samples) < 1:
        acc.sample({"history": list(seq), "final_text": text})


def history_jobs(maxlen):
    import itertools

    for n in range(1, maxlen + 1):
        yield from itertools.product(HIST_NAMES, repeat=n)


# ------------------------------------------------------- non-BMP sub-family
NONBMP_DOCS = ["\U0001F600x\ny", "a\U0001F600b"]


def nonbmp_family():
    acc = Acc()
    for text in NONBMP_DOCS:
        base = refdoc.split_lines(text)
        # valid UTF-16 positions only (not inside a surrogate pair)
        pos = []
        for i, ln in enumerate(base):
            u = 0
            pos.append((i, 0))
            for c in ln:
                u += 2 if ord(c) > 0xFFFF else 1
                pos.append((i, u))
        for i, a in enumerate(pos):
            for b in pos[i:]:
                for t in ["", "z", "\U0001F600"]:
                    ch = _mk_change((a, b), t)
                    f = _new_file(base)
                    want = refdoc.split_lines(refdoc.apply(text, ch))
                    try:
                        f.apply_change(ch)
                        got, exc = list(f.contents_split), None
                    except Exception as e:  # noqa
                        got, exc = None, type(e).__name__
                    acc.case(nontrivial_key=(text, repr(ch)), outcome=tuple(want))
                    if got != want:
                        acc.violation(Violation(
                            "unit_nonbmp", _tags("unit_nonbmp", text, ch, got or [], want, exc),
                            {"doc": text, "changes": [ch], "seam": "FortranFile.apply_change"}, want, got,
                            what=f"doc={text!r} change={ch!r}"))
    return acc


# ----------------------------------------------------- end-to-end (didChange)
E2E_DOC = "module m\ninteger :: v\ncontains\nsubroutine s\nv = 1\nend subroutine\nend module\n"
E2E_TEXTS = ["", "x", "\n", " \n", "\n ", "! c\n"]


def _find_decl_use(text):
    """(decl_line, decl_col, use_line, use_col) of `v` computed from client text;
    None if the edit destroyed either statement."""
    lines = refdoc.split_lines(text)
    decl = use = None
    for i, ln in enumerate(lines):
        s = ln.strip()
        if s == "integer :: v" and decl is None:
            decl = (i, ln.index("v"))
        if s == "v = 1" and use is None:
            use = (i, ln.index("v"))
    ok_struct = [ln.strip() for ln in lines if ln.strip() and not ln.strip().startswith("!")] == \
        ["module m", "integer :: v", "contains", "subroutine s", "v = 1", "end subroutine", "end module"]
    if decl and use and ok_struct:
        return decl, use
    return None


def e2e_worker(job, acc: Acc):
    incremental, changes_per_msg, first, second = job
    sc = core_scratch()
    sc.wipe()
    path = sc.write("d.f90", E2E_DOC)
    s = server_on(sc.path, ["--incremental_sync"] if incremental else [])
    s.open(path)
    text = E2E_DOC
    seq = [first] if second is None else [first, second]
    msgs = [seq] if changes_per_msg == 2 else [[c] for c in seq]
    for batch in msgs:
        sent = []
        for ch in batch:
            if ch.get("range") == "END":
                # placed where the document ends *now* (after the changes before it, also those of the same message)
                ls = refdoc.split_lines(text)
                e = {"line": len(ls) - 1, "character": len(ls[-1])}
                ch = {"range": {"start": e, "end": e}, "text": ch["text"]}
                seq = [c if c.get("range") != "END" else ch for c in seq]
            if not incremental:
                # whole-document sync: the client sends the full new text
                text = refdoc.apply(text, ch)
                sent.append({"text": text})
            else:
                sent.append(ch)
                text = refdoc.apply(text, ch)
        if not incremental:
            sent = sent[-1:]
        s.change(path, sent)
    fobj = s.srv.workspace.get(path)
    want = refdoc.split_lines(text)
    got = list(fobj.contents_split) if fobj is not None else None
    acc.case(nontrivial_key=(incremental, changes_per_msg, repr(seq)), outcome=tuple(want))
    acc.count("transitions", len(seq))
    case = {"doc": E2E_DOC, "changes": seq, "incremental": incremental, "per_msg": changes_per_msg,
            "seam": "textDocument/didChange"}
    fam = "e2e_didchange"
    if got != want:
        t = _tags(fam, E2E_DOC, seq[-1], got or [], want)
        sent_texts = [c.get("text", "") for c in seq] if incremental else [text]
        t["ins_ends_with_break"] = any(x[-1:] in ("\n", "\r") for x in sent_texts)
        t["ranged"] = bool(incremental)
        acc.violation(Violation(fam, t, case, want, got, what=f"changes={seq!r}"))
        return
    du = _find_decl_use(text)
    if du is not None:
        (dl, dc), (ul, uc) = du
        r = s.result("textDocument/definition", Server.tdpp(path, ul, uc))
        exp = {"line": dl, "character": dc}
        ok = isinstance(r, dict) and r.get("range", {}).get("start") == exp
        acc.count("definition_checked")
        if not ok:
            acc.violation(Violation(fam, {"family": fam, "obs": "definition_coordinates", "ranged": incremental,
                                          "ins_ends_with_break": False, "seam_crlf": False, "non_bmp": False},
                                    case, exp, r, what=f"definition after {seq!r}"))
    # the editor discards the unsaved buffer: didClose, and the document is opened again - the client now holds
    # what is on disk, and so must the server
    s.close(path)
    s.open(path)
    fobj = s.srv.workspace.get(path)
    got2 = list(fobj.contents_split) if fobj is not None else None
    want2 = refdoc.split_lines(E2E_DOC)
    acc.count("reopened")
    if got2 != want2:
        acc.violation(Violation(fam, {"family": fam, "obs": "after_close_and_reopen", "ranged": incremental,
                                      "ins_ends_with_break": False, "seam_crlf": False, "non_bmp": False},
                                {**case, "then": ["didClose", "didOpen"]}, want2, got2,
                                what=f"after {seq!r}, didClose (nothing saved) and didOpen the server still holds the edited text"))


# ------------------------------------------------- end-to-end (didOpen text)
OPEN_DOCS = [E2E_DOC, E2E_DOC.replace("\n", "\r\n"), E2E_DOC.rstrip("\n"), "", "\n", "program p\n\tinteger :: v\n\tv = 1\nend program p\n"]
OPEN_MODES = ["text_equals_disk", "no_file_on_disk", "disk_differs", "second_open_other_text"]


def open_worker(job, acc: Acc):
    """The initial document is what didOpen carries (LSP: from then on the truth is the client's buffer), whether or not
    a file of that name exists on disk and whatever it contains; then one change; then, with whole-document sync, a
    notification carrying two whole-document changes (the last one is the document)."""
    mode, incremental, di, change = job
    doc = OPEN_DOCS[di]
    sc = core_scratch()
    sc.wipe()
    path = os.path.join(sc.path, "d.f90")
    if mode == "text_equals_disk":
        with open(path, "w", newline="") as f:
            f.write(doc)
    elif mode in ("disk_differs", "second_open_other_text"):
        with open(path, "w", newline="") as f:
            f.write("module other\ninteger :: zz\nend module other\n")
    s = server_on(sc.path, ["--incremental_sync"] if incremental else [])
    if mode == "second_open_other_text":
        s.open(path)
        s.close(path)
    s.open(path, doc)
    fam = "e2e_didopen"
    case = {"doc": doc, "mode": mode, "incremental": incremental, "change": change, "seam": "textDocument/didOpen"}
    tags = {"family": fam, "mode": mode, "ranged": bool(incremental), "ins_ends_with_break": False, "seam_crlf": False, "non_bmp": False}
    acc.case(nontrivial_key=(mode, incremental, di, repr(change)), outcome=(mode, di))
    acc.count("transitions", 1)

    def held():
        fobj = s.srv.workspace.get(path)
        return list(fobj.contents_split) if fobj is not None else None

    text = doc
    if held() != refdoc.split_lines(text):
        acc.violation(Violation(fam, {**tags, "obs": "text_after_didopen"}, case, refdoc.split_lines(text), held(),
                                what=f"{mode}: after didOpen with text {doc[:30]!r}.. the server holds {str(held())[:60]}"))
        return
    if change is not None:
        lines = refdoc.split_lines(text)
        (l0, c0), (l1, c1) = change["at"]
        if l1 >= len(lines) or c0 > len(lines[l0]) or c1 > len(lines[l1]):
            return
        ch = _mk_change(change["at"], change["text"])
        text = refdoc.apply(text, ch)
        s.change(path, [ch] if incremental else [{"text": text}])
        acc.count("transitions", 1)
        if held() != refdoc.split_lines(text):
            acc.violation(Violation(fam, {**tags, "obs": "text_after_change"}, case, refdoc.split_lines(text), held(),
                                    what=f"{mode}: didOpen with text, then {ch!r}: server holds {str(held())[:80]}"))
            return
    du = _find_decl_use(text.replace("\r\n", "\n"))
    if du is not None:
        (dl, dc), (ul, uc) = du
        r = s.result("textDocument/definition", Server.tdpp(path, ul, uc))
        acc.count("definition_checked")
        if not (isinstance(r, dict) and r.get("range", {}).get("start") == {"line": dl, "character": dc}):
            acc.violation(Violation(fam, {**tags, "obs": "definition_coordinates"}, case, {"line": dl, "character": dc}, r,
                                    what=f"{mode}: definition of v after didOpen with text"))
    if not incremental:
        # one notification, two whole-document changes: the document is the last one
        t1, t2 = text + "! first\n", text + "! second\n! last\n"
        s.change(path, [{"text": t1}, {"text": t2}])
        acc.count("transitions", 2)
        if held() != refdoc.split_lines(t2):
            acc.violation(Violation(fam, {**tags, "obs": "several_whole_document_changes"}, case, refdoc.split_lines(t2), held(),
                                    what="a didChange with two whole-document changes: the server does not hold the last one"))


def open_jobs():
    changes = [None, {"at": ((0, 0), (0, 0)), "text": "! c\n"}, {"at": ((1, 0), (1, 0)), "text": " "}, {"at": ((0, 2), (1, 1)), "text": "x\ny"},
               {"at": ((0, 0), (0, 0)), "text": "x"}]
    for mode in OPEN_MODES:
        for inc in (True, False):
            for di in range(len(OPEN_DOCS)):
                for ch in changes:
                    yield (mode, inc, di, ch)


def core_scratch():
    from ..driver import worker_scratch

    return worker_scratch("c02")


def e2e_jobs(depth2: bool):
    # line-level positions only: column 0, middle, end of each line
    pos = []
    lines = refdoc.split_lines(E2E_DOC)
    for i, ln in enumerate(lines):
        for c in sorted({0, len(ln) // 2, len(ln)}):
            pos.append((i, c))
    ranges = [(a, a) for a in pos]  # insertions
    ranges += [(a, b) for i, a in enumerate(pos) for b in pos[i + 1 : i + 3]]  # short deletions
    firsts = [_mk_change(r, t) for r in ranges for t in E2E_TEXTS if not (r[0] == r[1] and t == "")]
    for inc in (True, False):
        for ch in firsts:
            yield (inc, 1, ch, None)
    if depth2:
        seconds = [_mk_change(((1, 0), (1, 0)), "\n"), _mk_change(((0, 0), (0, 0)), "! c\n"),
                   _mk_change(((4, 0), (4, 0)), " "), _mk_change(((2, 0), (3, 0)), ""),
                   {"range": "END", "text": "! tail"}, {"range": "END", "text": "! tail\n! more\n"}]
        for inc in (True, False):
            for per in (1, 2):
                if not inc and per == 2:
                    continue
                for a in firsts[::3]:
                    for b in seconds:
                        yield (inc, per, a, b)


# ------------------------------------------------------------------- main
def main(ctx):
    ctx.rule = ("BFS over client texts from 7 initial documents; a transition is one LSP content change: every "
                "start<=end range over every valid position x every inserted text of the alphabet, plus whole-document "
                "changes; executed on the real FortranFile.apply_change and (second family) through real didChange "
                "notifications.  Non-trivial = the change alters the text; distinct = distinct (state, change).")
    ctx.assumptions = [
        "families other than e2e_didopen: the file on disk equals the text the client sent in didOpen",
        "ranges lie inside the current document (the statement's precondition)",
        "position characters count UTF-16 code units (LSP default)",
    ]
    if ctx.quick:
        acc, states, trans = bfs_unit(ctx, depth_full=2, depth_reduced=2)
        ctx.coverage_extra["bounds"] = {"unit": "depth 2 full alphabet", "e2e": "depth 1"}
    else:
        acc, states, trans = bfs_unit(ctx, depth_full=2, depth_reduced=3)
        ctx.coverage_extra["bounds"] = {"unit": "depth 2 full alphabet, depth 3 reduced alphabet", "e2e": "depth 2"}
    ctx.add_family("unit_apply_change", acc)
    ctx.add_family("unit_nonbmp", nonbmp_family())
    hacc = core.pmap(history_case, history_jobs(4 if ctx.quick else 5), chunk=128, budget_s=60, label="C02/history")
    ctx.add_family("history", hacc, max_len=4 if ctx.quick else 5)
    jobs = list(e2e_jobs(depth2=True))
    e2e = core.pmap(e2e_worker, jobs, chunk=16, budget_s=60, label="C02/e2e")
    ctx.add_family("e2e_didchange", e2e)
    oacc = core.pmap(open_worker, list(open_jobs()), chunk=8, budget_s=60, label="C02/open")
    ctx.add_family("e2e_didopen", oacc, what="the document as carried by didOpen x {same text on disk, no file on disk, another text on disk, opened "
                   "and closed before with the disk text} x 6 documents (LF, CRLF, no final break, empty, tabs) x ranged / whole-document sync x "
                   "one change; with whole-document sync a notification carrying two whole-document changes")
    ctx.states = states
    ctx.transitions = trans + e2e.counters.get("transitions", 0) + hacc.counters.get("transitions", 0) + oacc.counters.get("transitions", 0)
    # every transition above *is* an execution of the implementation
    ctx.traces_validated = ctx.transitions
    ctx.coverage_extra["note"] = ("the model (refdoc) is stepped in lock-step with the implementation on every "
                                  "transition, so traces_validated_against_impl equals transitions")


def replay(rec):
    case = rec["case"]
    text = case["doc"]
    if case.get("seam") == "textDocument/didChange":
        acc = Acc()
        seq = case["changes"]
        e2e_worker((case["incremental"], case["per_msg"], seq[0], seq[1] if len(seq) > 1 else None), acc)
        return [v.to_json("C02") for v in acc.violations]
    if case.get("seam") == "textDocument/didOpen":
        acc = Acc()
        open_worker((case["mode"], case["incremental"], OPEN_DOCS.index(case["doc"]), case["change"]), acc)
        return [v.to_json("C02") for v in acc.violations] or None
    if case.get("seam") == "history":
        acc = Acc()
        history_case(tuple(case["history"]), acc)
        return [v.to_json("C02") for v in acc.violations] or None
    f = _new_file(refdoc.split_lines(text))
    for ch in case["changes"]:
        try:
            f.apply_change(ch)
        except Exception as e:  # noqa
            return {"raised": repr(e)}
        text = refdoc.apply(text, ch)
    want = refdoc.split_lines(text)
    if list(f.contents_split) != want:
        return {"expected": want, "observed": list(f.contents_split)}
    return None
