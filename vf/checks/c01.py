"""C01 — one response per request, in order; the server outlives handler failure.

Explicit-state BFS over message histories.  A state is a history of messages;
build(history) creates a fresh real LangServer (real JSONRPC2Connection, real
ReadWriter) and runs the real LangServer.run() loop over the byte stream of the
history.  States are de-duplicated on the heap canon of the server and of its
connection object; emitted bytes are judged per transition by `refrpc`.
"""
from __future__ import annotations

import io
import json
import os

from .. import core
from ..canon import server_state
from ..core import Acc, Violation
from ..driver import (FrameError, Scratch, frame, parse_cli, parse_frames, reset_globals, run_subprocess,
                      use_fake_pool, worker_scratch)

LEVEL = "model_checking"

DOCS = {
    "d1.f90": "module m1\n  integer :: vv\ncontains\n  subroutine s1(a)\n    integer :: a\n    vv = a\n    call s1(vv)\n  end subroutine s1\nend module m1\n",
    "d2.f90": "module m2\n  type :: t\n    integer :: \n  subroutine s2(\n    call s2(x%\n",
    "d3.f90": "subroutine s3\n  integer, pointer :: pa => pa\n  pa = 1\nend subroutine s3\n",
    "d4.F90": "#define W 1\nprogram p4\n#if W\n  integer :: w1\n#else\n  integer :: w2\n#endif\n  w1 = W\nend program p4\n",
}
METHODS = {
    "initialize", "textDocument/documentSymbol", "textDocument/completion", "textDocument/signatureHelp",
    "textDocument/definition", "textDocument/references", "textDocument/documentHighlight", "textDocument/hover",
    "textDocument/implementation", "textDocument/rename", "textDocument/didOpen", "textDocument/didSave",
    "textDocument/didClose", "textDocument/didChange", "textDocument/codeAction", "initialized",
    "workspace/didChangeWatchedFiles", "workspace/didChangeConfiguration", "workspace/symbol", "$/cancelRequest",
    "$/setTrace", "shutdown", "exit",
}
IDS = [1, 0, "a", 2 ** 40]
POSITIONAL = ["textDocument/completion", "textDocument/signatureHelp", "textDocument/definition",
              "textDocument/references", "textDocument/documentHighlight", "textDocument/hover",
              "textDocument/implementation", "textDocument/rename"]


def alphabet(root, full=True):
    """[(label, method, params or MISSING, is_request)] simplest first."""
    from fortls.jsonrpc import path_to_uri

    def uri(n):
        return path_to_uri(os.path.join(root, n))

    MISSING = "__missing__"
    A = []
    A.append(("init", "initialize", {"rootPath": root}, True))
    A.append(("initialized", "initialized", {}, False))
    A.append(("unknown_req", "fortls/doesNotExist", {"x": 1}, True))
    A.append(("unknown_note", "fortls/doesNotExist", {"x": 1}, False))
    A.append(("unknown_req_unicode", "fortls/\u00fcberpr\u00fcfen\u20ac\U0001F600", {"x": "\u00e9"}, True))
    # `$/` messages may be ignored when they are notifications; a request still gets MethodNotFound
    A.append(("unknown_req_dollar", "$/doesNotExist", {"x": 1}, True))
    A.append(("unknown_note_dollar", "$/doesNotExist", {"x": 1}, False))
    # a method name is any string: the empty one is just another unknown method
    A.append(("unknown_req_empty_name", "", {"x": 1}, True))
    A.append(("unknown_note_empty_name", "", {"x": 1}, False))
    A.append(("exit_note", "exit", MISSING, False))
    A.append(("shutdown", "shutdown", MISSING, True))
    A.append(("cancel", "$/cancelRequest", {"id": 1}, False))
    for n in DOCS:
        A.append((f"open:{n}", "textDocument/didOpen", {"textDocument": {"uri": uri(n)}}, False))
    td1 = {"uri": uri("d1.f90")}
    A.append(("change_full", "textDocument/didChange",
              {"textDocument": td1, "contentChanges": [{"text": DOCS["d1.f90"].replace("vv", "ww")}]}, False))
    A.append(("change_ranged", "textDocument/didChange",
              {"textDocument": td1, "contentChanges": [
                  {"range": {"start": {"line": 1, "character": 13}, "end": {"line": 1, "character": 15}}, "text": "zz\n  integer :: q"}]}, False))
    A.append(("change_unopened", "textDocument/didChange",
              {"textDocument": {"uri": uri("nope.f90")}, "contentChanges": [{"text": "x"}]}, False))
    A.append(("change_nochanges", "textDocument/didChange", {"textDocument": td1}, False))
    A.append(("save:d1", "textDocument/didSave", {"textDocument": td1}, False))
    A.append(("save:d3", "textDocument/didSave", {"textDocument": {"uri": uri("d3.f90")}}, False))
    A.append(("close:d1", "textDocument/didClose", {"textDocument": td1}, False))
    pos1 = {"line": 5, "character": 5}  # `vv` in d1
    A.append(("symbols", "textDocument/documentSymbol", {"textDocument": td1}, True))
    A.append(("wsymbol", "workspace/symbol", {"query": "s"}, True))
    for m in POSITIONAL:
        extra = {"newName": "nn"} if m.endswith("rename") else ({"context": {"includeDeclaration": True}} if m.endswith("references") else {})
        A.append((m.split("/")[1], m, {"textDocument": td1, "position": pos1, **extra}, True))
    A.append(("codeAction", "textDocument/codeAction",
              {"textDocument": td1, "range": {"start": {"line": 1, "character": 0}, "end": {"line": 4, "character": 0}}, "context": {"diagnostics": []}}, True))
    A.append(("hover:d3", "textDocument/hover", {"textDocument": {"uri": uri("d3.f90")}, "position": {"line": 2, "character": 3}}, True))
    A.append(("completion:d2", "textDocument/completion", {"textDocument": {"uri": uri("d2.f90")}, "position": {"line": 4, "character": 11}}, True))
    if full:
        A.append(("exit_req", "exit", MISSING, True))
        A.append(("init_empty_params", "initialize", {}, True))
        A.append(("init_no_params", "initialize", MISSING, True))
        A.append(("save_as_request", "textDocument/didSave", {"textDocument": td1}, True))
        A.append(("hover_as_note", "textDocument/hover", {"textDocument": td1, "position": pos1}, False))
        for m in ["textDocument/documentSymbol", "workspace/symbol", "textDocument/codeAction"] + POSITIONAL:
            A.append((m.split("/")[1] + "{}", m, {}, True))
        for m in POSITIONAL[:3] + ["textDocument/documentSymbol"]:
            A.append((m.split("/")[1] + ":nofile", m, {"textDocument": {"uri": uri("nope.f90")}, "position": pos1}, True))
        A.append(("open:nofile", "textDocument/didOpen", {"textDocument": {"uri": uri("nope.f90")}}, False))
        A.append(("open{}", "textDocument/didOpen", {}, False))
        A.append(("position_far", "textDocument/hover", {"textDocument": td1, "position": {"line": 999, "character": 999}}, True))
        A.append(("position_neg", "textDocument/definition", {"textDocument": td1, "position": {"line": -1, "character": -1}}, True))
        A.append(("params_list", "textDocument/hover", [1, 2], True))
        A.append(("params_null", "workspace/symbol", None, True))
        # members of the expected name but of another JSON type (a handler, or anything before it, that reaches into them fails)
        A.append(("td_null", "textDocument/hover", {"textDocument": None, "position": pos1}, True))
        A.append(("td_string", "textDocument/documentSymbol", {"textDocument": uri("d1.f90")}, True))
        A.append(("td_list_note", "textDocument/didOpen", {"textDocument": [uri("d1.f90")]}, False))
        A.append(("td_number_unknown", "fortls/doesNotExist", {"textDocument": 7}, True))
        A.append(("position_string", "textDocument/definition", {"textDocument": td1, "position": "1:2"}, True))
        # well-formed JSON whose nesting exceeds what the decoder can take in one go
        deep = []
        for _ in range(1500):
            deep = [deep]
        A.append(("params_deep", "workspace/symbol", {"query": "s", "x": deep}, True))
    out = []
    for (label, method, params, is_req) in A:
        out.append((label, method, params, is_req))
    return out


def build_message(entry, k):
    label, method, params, is_req = entry
    m = {"jsonrpc": "2.0", "method": method}
    if is_req:
        m["id"] = IDS[k % len(IDS)]
    if params != "__missing__":
        m["params"] = params
    return m


# -------------------------------------------------------------- execution
def prepare_root(sc: Scratch):
    sc.wipe()
    for n, t in DOCS.items():
        sc.write(n, t)
    os.makedirs(os.path.join(sc.path, "empty_cwd"), exist_ok=True)
    return sc.path


def run_history(root, msgs, fake_pool=True):
    """Run the real loop over the stream.  Returns (per-message output frames,
    handled count, run_returned_normally, exception repr, srv, raw output)."""
    import fortls.langserver as ls
    from fortls.jsonrpc import JSONRPC2Connection, ReadWriter

    reset_globals()
    use_fake_pool(fake_pool)
    data = b"".join(frame(m, header_order="L") for m in msgs)
    out = io.BytesIO()
    rd = io.BufferedReader(io.BytesIO(data))
    srv = ls.LangServer(conn=JSONRPC2Connection(ReadWriter(rd, out)), settings=parse_cli([]))
    marks = []
    real_read = srv.conn.read_message

    def read_message(*a, **k):
        # everything written from the moment the k-th message starts being read until the next read starts is
        # attributed to message k (a message that cannot even be decoded is still a message the client sent)
        marks.append(out.tell())
        try:
            return real_read(*a, **k)
        except EOFError:
            marks.pop()
            raise

    srv.conn.read_message = read_message
    exc = None
    cwd = os.getcwd()
    os.chdir(os.path.join(root, "empty_cwd"))
    try:
        srv.run()
    except BaseException as e:  # noqa
        exc = repr(e)
    finally:
        os.chdir(cwd)
    del srv.conn.__dict__["read_message"]
    raw = out.getvalue()
    marks.append(len(raw))
    per = []
    for i in range(len(marks) - 1):
        per.append(raw[marks[i]:marks[i + 1]])
    leftover = rd.read()
    return per, len(marks) - 1, exc, srv, raw, leftover


def _brief(m):
    """A message as it goes into a violation record (a deeply nested one is summarised: records are written as JSON)."""
    try:
        json.dumps(m)
        return m
    except RecursionError:
        return {k: (v if k != "params" else "<nested too deeply to print>") for k, v in m.items()}


def judge(msgs, per, handled, exc, leftover):
    """refrpc: returns [(obs_class, detail)] for the *last* message of the history
    plus whole-history invariants."""
    bad = []
    exit_at = next((i for i, m in enumerate(msgs) if m["method"] == "exit"), None)
    expect_handled = len(msgs) if exit_at is None else exit_at + 1
    if exc is not None:
        bad.append(("run_raised", exc))
    if handled != expect_handled:
        bad.append(("server_stopped_early" if handled < expect_handled else "served_after_exit",
                    f"handled {handled} of {len(msgs)} messages (exit at {exit_at})"))
    received_ids = []
    resp_ids = []
    for k, chunk in enumerate(per):
        m = msgs[k]
        if "id" in m:
            received_ids.append(m["id"])
        try:
            frames = [o for (_, _, o) in parse_frames(chunk)]
        except FrameError as e:
            bad.append(("unparsable_output", str(e)))
            continue
        responses = [o for o in frames if "method" not in o]
        others = [o for o in frames if "method" in o]
        for o in others:
            if "id" in o:
                bad.append(("server_request_emitted", o))
        for o in responses:
            resp_ids.append(o.get("id"))
            if ("result" in o) == ("error" in o):
                bad.append(("result_xor_error", o))
            if o.get("jsonrpc") != "2.0":
                bad.append(("jsonrpc_version", o))
        if "id" in m:
            if len(responses) != 1:
                bad.append((f"responses_for_request={len(responses)}", {"request": _brief(m), "outputs": frames}))
            else:
                r = responses[0]
                if r.get("id") != m["id"] or type(r.get("id")) is not type(m["id"]):
                    bad.append(("wrong_response_id", {"request_id": m["id"], "response": r}))
                if "error" in r:
                    code = r["error"].get("code")
                    unknown = m["method"] not in METHODS
                    if unknown and code != -32601:
                        bad.append(("unknown_method_code", r))
                    # a message the decoder could not take is neither: its id is unknown to the server, the code is ParseError
                    if not unknown and code != -32603 and not (code == -32700 and r.get("id") is None):
                        bad.append(("handler_failure_code", r))
                    if not isinstance(r["error"].get("message"), str):
                        bad.append(("error_message_type", r))
                elif m["method"] not in METHODS:
                    bad.append(("unknown_method_got_result", r))
        else:
            if responses:
                bad.append(("response_to_notification", {"notification": _brief(m), "responses": responses}))
    # every response id is a received id, in arrival order
    if resp_ids != received_ids[: len(resp_ids)] and not any(b[0].startswith(("responses_for", "response_to", "wrong")) for b in bad):
        bad.append(("response_order", {"received": received_ids, "responded": resp_ids}))
    return bad


# ------------------------------------------------------------------ BFS
_ALPHA = {}


def _alpha(root, full):
    key = (root, full)
    if key not in _ALPHA:
        _ALPHA[key] = alphabet(root, full)
    return _ALPHA[key]


def expand(job, acc: Acc):
    """All transitions out of one state.  job = (history of alphabet indices, full)"""
    hist, full, collect = job
    sc = worker_scratch("c01")
    succ = []
    for a in range(len(_alpha(sc.path, full))):
        root = prepare_root(sc)
        A = _alpha(root, full)
        h2 = list(hist) + [a]
        msgs = [build_message(A[i], k) for k, i in enumerate(h2)]
        per, handled, exc, srv, raw, leftover = run_history(root, msgs)
        bad = judge(msgs, per, handled, exc, leftover)
        labels = [A[i][0] for i in h2]
        acc.count("transitions")
        last_out = per[-1] if len(per) == len(msgs) else b""
        acc.case(nontrivial_key=tuple(labels), outcome=(A[a][0], core.h64(last_out.replace(root.encode(), b"<ROOT>"))))
        for obs, detail in bad:
            acc.violation(Violation(
                "bfs", {"family": "bfs", "obs": obs, "last": labels[-1], "method": msgs[-1]["method"]},
                {"history": labels, "full_alphabet": full}, None, detail, what=f"history={labels}"))
        if bad:
            continue
        if A[a][1] == "exit":
            acc.states.add(core.h64(("exited", tuple(labels[:-1]))) if False else core.h64("exited"))
            continue  # successors of exit are not expanded
        if collect:
            dg, _ = server_state(srv, root)
            succ.append((dg, tuple(h2)))
    acc.succ.extend(succ)
    if len(acc.samples) < 2:
        acc.sample({"history": [A[i][0] for i in hist], "alphabet_size": len(A)})


def bfs(ctx, depth, full, restrict_prefix=None, extra_depth=0):
    total = Acc()
    seen = {}
    # the initial state
    frontier = [()]
    seen["<init>"] = ()
    transitions = 0
    for d in range(1, depth + 1):
        collect = d < depth
        jobs = [(h, full, collect) for h in frontier]
        acc = core.pmap(expand, jobs, chunk=1, budget_s=600, label="C01/bfs")
        succ, acc.succ = acc.succ, []
        transitions += acc.counters.get("transitions", 0)
        new = []
        for dg, h in sorted(succ, key=lambda x: x[1]):
            if dg not in seen:
                seen[dg] = h
                new.append(h)
        ctx.log(f"depth {d}: expanded {len(frontier)} states, {acc.counters.get('transitions', 0)} transitions, "
                f"{len(new)} new states, violations={acc.viol_count}")
        total.merge(acc)
        frontier = new
        if not frontier:
            break
    total.counters["transitions"] = transitions
    return total, len(seen), transitions, seen


def conformance(ctx, histories, full):
    """Replay histories through `python -m fortls`: transcript must be identical."""
    def one(h, acc: Acc):
        sc = worker_scratch("c01")
        root = prepare_root(sc)
        A = _alpha(root, full)
        msgs = [build_message(A[i], k) for k, i in enumerate(h)] + [{"jsonrpc": "2.0", "method": "exit"}]
        *_, raw, _ = run_history(root, msgs, fake_pool=True)
        root = prepare_root(sc)
        data = b"".join(frame(m, header_order="L") for m in msgs)
        got, rc = run_subprocess(data, [], cwd=os.path.join(root, "empty_cwd"))
        labels = [A[i][0] for i in h]
        acc.case(nontrivial_key=tuple(labels), outcome=len(got))

        def norm(b):
            # tracebacks carry line numbers of the harness frames above handle(); compare without them
            out = []
            for (_, _, o) in parse_frames(b):
                if isinstance(o.get("error"), dict):
                    o["error"].pop("data", None)
                out.append(o)
            return out
        try:
            same = norm(got) == norm(raw)
        except FrameError:
            same = False
        if same:
            acc.count("identical")
        else:
            acc.violation(Violation("conformance", {"family": "conformance", "obs": "subprocess_differs"},
                                    {"history": labels, "full_alphabet": full}, raw.decode("utf-8", "replace")[-600:],
                                    got.decode("utf-8", "replace")[-600:], what=f"history={labels}"))
    return core.pmap(one, histories, chunk=2, budget_s=120, label="C01/conformance")


def main(ctx):
    q = ctx.quick
    ctx.rule = ("BFS over message histories through the real LangServer.run loop; alphabet of ~60 messages (lifecycle, "
                "unknown methods, sync events on 4 documents, every request method well-formed / with params {} / on a "
                "non-existent file / with non-object params); a state is the heap canon of server+connection; every "
                "transition's output is judged by refrpc. Non-trivial: every history is (distinct by label sequence).")
    ctx.assumptions = ["messages are well-formed JSON-RPC objects (the statement's precondition); batches and client "
                       "responses are not generated",
                       "multiprocessing.Pool replaced by a synchronous stand-in in-process; the subprocess slice uses the real one"]
    depth = 4 if q else 5
    acc, states, trans, seen = bfs(ctx, depth, full=True)
    ctx.add_family("bfs", acc, depth=depth, states=states)
    ctx.states = states
    ctx.transitions = trans
    hs = sorted(seen.values(), key=lambda h: (len(h), h))
    hs = [h for h in hs if h][: 32 if q else 160]
    cacc = conformance(ctx, hs, True)
    ctx.add_family("conformance", cacc)
    ctx.traces_validated = cacc.counters.get("identical", 0)
    ctx.coverage_extra["bounds"] = {"history_depth": depth, "alphabet": len(_alpha("/x", True))}
    ctx.coverage_extra["note"] = ("every transition executes the implementation; traces_validated_against_impl counts the "
                                  "histories additionally replayed through the real `python -m fortls` executable with an "
                                  "identical transcript")


def replay(rec):
    c = rec["case"]
    with Scratch("c01r") as sc:
        root = prepare_root(sc)
        A = alphabet(root, c.get("full_alphabet", True))
        by = {a[0]: a for a in A}
        msgs = [build_message(by[l], k) for k, l in enumerate(c["history"])]
        per, handled, exc, srv, raw, leftover = run_history(root, msgs)
        bad = judge(msgs, per, handled, exc, leftover)
        return [{"obs": o, "detail": d} for o, d in bad] or None
