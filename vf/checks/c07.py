"""C07 — diagnostics: silent on valid programs, present on each documented defect.

Fault enumeration.  Base = the canonical program corpus (valid per gfortran) plus
programs using the bundled intrinsic modules.  For each of the 15 diagnosed defect
classes a seeder rewrites the program at *every* applicable position; the expected
diagnostic (message class, severity, offending line set) follows from the seeding.
Oracle: (valid) no error-severity diagnostic in any file; (seeded) at least one
diagnostic of the class with the class's severity on a line of the offending set,
and no error-severity diagnostic of a different class anywhere.
"""
from __future__ import annotations

import os
import re

from .. import core, programs
from ..core import Acc, Violation
from ..driver import Server, worker_scratch

LEVEL = "fault_enumeration"

INTRINSIC_PROGRAMS = {
    "iso_env": "program p_env\n  use, intrinsic :: iso_fortran_env\n  implicit none\n  integer(int32) :: a\n  real(real64) :: b\n  a = 1\n  b = 2.0_real64\n  write (output_unit, *) a, b\nend program p_env\n",
    "iso_env_only": "program p_envo\n  use iso_fortran_env, only: int64, error_unit\n  implicit none\n  integer(int64) :: a\n  a = 1\n  write (error_unit, *) a\nend program p_envo\n",
    "iso_c": "module m_c\n  use, intrinsic :: iso_c_binding\n  implicit none\n  type, bind(c) :: pair_t\n    integer(c_int) :: a\n    real(c_double) :: b\n  end type pair_t\ncontains\n  subroutine fill(p) bind(c)\n    type(pair_t), intent(out) :: p\n    type(c_ptr) :: q\n    p%a = 1_c_int\n    p%b = 2.0_c_double\n    q = c_null_ptr\n  end subroutine fill\nend module m_c\n",
    "iso_c_only": "subroutine s_c(n)\n  use iso_c_binding, only: c_int, c_float\n  implicit none\n  integer(c_int), intent(in) :: n\n  real(c_float) :: x\n  x = real(n, c_float)\nend subroutine s_c\n",
    "ieee": "program p_ieee\n  use, intrinsic :: ieee_arithmetic\n  implicit none\n  real :: x\n  x = ieee_value(x, ieee_quiet_nan)\n  if (ieee_is_nan(x)) print *, 'nan'\nend program p_ieee\n",
    "omp": "subroutine s_omp()\n  use omp_lib\n  implicit none\n  integer :: n\n  n = omp_get_max_threads()\n  call omp_set_num_threads(n)\nend subroutine s_omp\n",
}
# further valid programs (gfortran -std=f2008 accepts each): shapes on which a check could raise a false alarm
VALID_EXTRA = {
    # an interface body has implicit typing rules of its own: IMPLICIT NONE of the host does not reach into it
    "iface_body_implicit": "module ibm\n  implicit none\n  interface\n    subroutine ext_s(a, n)\n      integer :: n\n    end subroutine ext_s\n"
                           "    function ext_f(x)\n    end function ext_f\n  end interface\nend module ibm\n",
    # the same dummy procedure name declared by a type statement + EXTERNAL statement in two procedures of one file
    "external_in_two_procedures": "subroutine one(f, x)\n  implicit none\n  real f, x\n  external f\n  x = f(x)\nend subroutine one\n"
                                  "subroutine two(f, y)\n  implicit none\n  external f\n  real f, y\n  y = f(y)\nend subroutine two\n",
    # names are case-insensitive, also between a type statement and a separate EXTERNAL statement
    "external_mixed_case": "subroutine emc(func, x)\n  implicit none\n  real func, x\n  EXTERNAL FUNC\n  x = Func(x)\nend subroutine emc\n"
                           "subroutine emc2(g, y)\n  implicit none\n  external G\n  real :: g, y\n  y = g(y)\nend subroutine emc2\n",
    # host association and shadowing in nested scopes
    "block_shadow": "subroutine bs(n)\n  implicit none\n  integer :: n, k\n  k = n\n  block\n    real :: q\n    q = 1.0\n    block\n      integer :: r\n      r = k\n    end block\n  end block\n"
                    "  block\n    integer :: q\n    q = 2\n  end block\nend subroutine bs\n",
    # function result names, recursive functions, the function name used as result
    "results": "module rm\n  implicit none\ncontains\n  recursive function fact(n) result(r)\n    integer, intent(in) :: n\n    integer :: r\n    if (n <= 1) then\n      r = 1\n    else\n      r = n * fact(n - 1)\n    end if\n"
               "  end function fact\n  integer function twice(m)\n    integer, intent(in) :: m\n    twice = 2 * m\n  end function twice\nend module rm\n",
    # a type reached through a USE rename and through IMPORT
    "renamed_type": "module rtm\n  implicit none\n  type :: orig_t\n    integer :: c\n  end type orig_t\nend module rtm\nmodule rtu\n  use rtm, only: local_t => orig_t\n  implicit none\n  type(local_t) :: v\n"
                    "  interface\n    subroutine takes(a)\n      import :: local_t\n      type(local_t) :: a\n    end subroutine takes\n  end interface\nend module rtu\n",
}
ORPHAN = "module orphan_mod\n  implicit none\n  type :: orphan_t\n    integer :: payload\n  end type orphan_t\nend module orphan_mod\n"

OPEN = re.compile(r"^\s*(?:(\w+)\s*:\s*)?(module(?!\s+(?:procedure|subroutine|function))|submodule|program|block\s*$|do\b|if\b.*\bthen\s*$|select\b|associate\b|where\s*\([^)]*\)\s*$|interface\b|abstract\s+interface|enum\b|type(?!\s*\()(?!\s+is\b)\s*(?:,|::|\s\w))", re.I)
PROC = re.compile(r"^\s*(?:(?:pure|elemental|recursive|impure|module)\s+)*(?:(?:integer|real|logical|character|type\s*\([^)]*\)|double\s+precision)(?:\s*\([^)]*\))?\s+)?(subroutine|function)\s+(\w+)", re.I)
END = re.compile(r"^\s*end\s*(\w*)", re.I)
DECL = re.compile(r"^\s*(integer|real|logical|character|complex|type\s*\(|class\s*\(|procedure\s*\(|double\s+precision)", re.I)


def structure(lines):
    """Scopes of a canonical program: dicts with kind, name, start, end, parent, contains, implicit, spec (insertion line)."""
    scopes, stack = [], []
    for i, ln in enumerate(lines):
        s = ln.strip().lower()
        if not s or s.startswith(("!", "#")):
            continue
        ml = re.match(r"^\s*(\d+)\s", ln)
        while ml and stack and stack[-1].get("label") == ml.group(1):
            sc = stack.pop()       # labelled DO terminated by its labelled statement
            sc["end"] = i
            sc["labelled"] = True
        if ml and re.match(r"^\s*\d+\s+continue\s*$", ln, re.I):
            continue
        me = END.match(ln)
        if me and (me.group(1) in ("", "module", "submodule", "program", "subroutine", "function", "type", "interface", "block", "do", "if", "select",
                                   "associate", "where", "enum", "procedure") or s == "end") and not s.startswith(("endfile",)):
            if stack:
                sc = stack.pop()
                sc["end"] = i
            continue
        if s == "contains":
            if stack:
                stack[-1].setdefault("contains", i)
            continue
        mp = PROC.match(ln)
        mo = OPEN.match(ln)
        if mp and not s.startswith(("end",)):
            kind, name = mp.group(1).lower(), mp.group(2)
        elif mo:
            kind = re.sub(r"\s+", " ", mo.group(2).lower()).split()[0].rstrip(",:")
            if kind == "abstract":
                kind = "interface"
            if kind.startswith("if"):
                kind = "if"
            if kind.startswith("where"):
                kind = "where"
            if kind.startswith("block"):
                kind = "block"
            if kind.startswith("type"):
                kind = "type"
            m2 = re.search(r"(\w+)\s*$", ln.split("!")[0])
            name = m2.group(1) if m2 else ""
        else:
            if stack and s.startswith("implicit"):
                stack[-1].setdefault("implicit", i)
            continue
        sc = {"kind": kind, "name": name, "start": i, "end": None, "parent": stack[-1] if stack else None}
        mdo = re.match(r"^\s*(?:\w+\s*:\s*)?do\s+(\d+)\b", ln, re.I)
        if mdo:
            sc["label"] = mdo.group(1)
        scopes.append(sc)
        stack.append(sc)
    for sc in scopes:
        if sc["end"] is None:
            sc["end"] = len(lines) - 1
        j = sc["start"] + 1
        while j < sc["end"] and re.match(r"^\s*(use\b|import\b|implicit\b)", lines[j], re.I):
            j += 1
        sc["spec"] = j
    return scopes


def in_interface(sc):
    p = sc["parent"]
    while p:
        if p["kind"] == "interface":
            return True
        p = p["parent"]
    return False


# --------------------------------------------------------------------- seeders
# each yields (class, new lines, offending line set (0-based, in the new text), message regex, severity, extra files, argv)
def seeders(lines):
    scopes = structure(lines)
    procs = [s for s in scopes if s["kind"] in ("subroutine", "function") and not in_interface(s)]
    units = [s for s in scopes if s["parent"] is None]

    def ins(i, *new):
        return lines[:i] + list(new) + lines[i:]

    # 1 declared twice
    for i, ln in enumerate(lines):
        m = re.match(r"^(\s*)(integer|real|logical)\b[^!]*::\s*(\w+)\s*(=[^,]*)?$", ln, re.I)
        if m and not re.search(r"\bparameter\b", ln, re.I):
            yield ("declared_twice", ins(i + 1, ln), {i, i + 1}, rf'Variable "{m.group(3)}" declared twice in scope', 1, {}, [])
    # 2 masks host variable
    for p in procs:
        host = p["parent"]
        if host is None or host["kind"] not in ("module", "program", "subroutine", "function", "submodule"):
            continue
        hostvars = []
        for j in range(host["start"] + 1, host.get("contains", host["end"])):
            m = re.match(r"^\s*(integer|real|logical)\b[^!]*::\s*(\w+)\s*(=.*)?$", lines[j], re.I)
            if m and _scope_of(scopes, j) is host:
                hostvars.append(m.group(2))
        body = "\n".join(lines[p["start"]:p["end"] + 1]).lower()
        for hv in hostvars:
            if re.search(rf"\b{re.escape(hv.lower())}\b", lines[p["start"]].lower()):
                continue  # a dummy argument of that name
            if re.search(rf"::\s*[^!\n]*\b{re.escape(hv.lower())}\b", body):
                continue
            yield ("masks_host", ins(p["spec"], "    integer :: " + hv), {p["spec"]}, rf'Variable "{hv}" masks variable in parent scope', 2, {}, [])
    # 3 bare END leaves a block construct open
    for sc in scopes:
        # (block constructs only: a derived-type or interface definition is not one)
        if sc["kind"] in ("do", "if", "select", "block", "associate", "where") and sc["end"] is not None and not sc.get("label"):
            e = sc["end"]
            if re.match(r"^\s*end\s*\w", lines[e], re.I):
                new = list(lines)
                new[e] = re.match(r"^\s*", lines[e]).group(0) + "end"
                # the opening statement, a guard statement of the construct, or the END line
                guards = {j for j in range(sc["start"], e) if re.match(r"^\s*(case\b|type\s+is\b|class\s+is\b|class\s+default\b|else\b|elsewhere\b)", lines[j], re.I)
                          and _scope_of(scopes, j) is sc}
                yield ("bare_end", new, {sc["start"], e} | guards, r"Unexpected end of scope at line", 1, {}, [])
    # 4 unknown module
    for sc in units + procs:
        yield ("unknown_module", ins(sc["start"] + 1, "  use no_such_module_xyz"), {sc["start"] + 1}, r'Module "no_such_module_xyz" not found in project', 3, {}, [])
    # 5 type defined in the project but not accessible
    legit = ["subroutine orphan_user()", "  use orphan_mod", "  implicit none", "  type(orphan_t) :: legit_use", "end subroutine orphan_user"]
    for sc in procs + [u for u in units if u["kind"] in ("program",)]:
        new = ins(sc["spec"], "    type(orphan_t) :: qq_orphan")
        yield ("type_not_accessible", new, {sc["spec"]}, r'Object "orphan_t" not found in scope', 1, {"orphan.f90": ORPHAN}, [])
        # the same type is legitimately used by another scope of the same file, before / after the seeded one
        yield ("type_not_accessible", legit + new, {sc["spec"] + len(legit)}, r'Object "orphan_t" not found in scope', 1, {"orphan.f90": ORPHAN}, [])
        yield ("type_not_accessible", new + legit, {sc["spec"]}, r'Object "orphan_t" not found in scope', 1, {"orphan.f90": ORPHAN}, [])
    # 6 dummy argument without declaration
    for p in procs:
        args = re.search(r"\(([^)]*)\)", lines[p["start"]])
        if not args or re.match(r"^\s*module\s", lines[p["start"]], re.I):
            continue  # separate module procedures take their characteristics from the interface
        for a in [x.strip() for x in args.group(1).split(",") if x.strip()]:
            for j in range(p["start"] + 1, p["end"]):
                if re.match(rf"^\s*[^!]*::\s*{re.escape(a)}\s*$", lines[j], re.I) and _scope_of(scopes, j) is p:
                    new = lines[:j] + lines[j + 1:]
                    yield ("dummy_undeclared", new, {p["start"]}, rf'No matching declaration found for argument "{a}"', 1, {}, [])
    # 7 INTENT variable that is not an argument
    for p in procs:
        yield ("intent_not_argument", ins(p["spec"], "    integer, intent(in) :: not_an_argument"), {p["spec"]},
               r'Variable "not_an_argument" with INTENT keyword not found in argument list', 1, {}, [])
    # 8 second CONTAINS
    for sc in scopes:
        if "contains" in sc:
            c = sc["contains"]
            yield ("second_contains", ins(c + 1, lines[c]), {c, c + 1}, r"Multiple CONTAINS statements in scope", 1, {}, [])
    # 9 statements outside any scope
    gaps = [0] + [u["end"] + 1 for u in units]
    for g in gaps:
        for stmt, msg in (("contains", "CONTAINS statement without enclosing scope"), ("implicit none", "IMPLICIT statement without enclosing scope"),
                          ("private", "Visibility statement without enclosing scope"), ("public", "Visibility statement without enclosing scope")):
            yield ("outside_scope:" + stmt.split()[0], ins(g, stmt), {g}, msg, 1, {}, [])
    # 10 IMPORT outside an interface body
    for p in procs:
        yield ("import_outside_interface", ins(p["start"] + 1, "    import"), {p["start"] + 1}, r"IMPORT statement outside of interface", 1, {}, [])
    # 11 USE after IMPLICIT
    for sc in scopes:
        if "implicit" in sc:
            k = sc["implicit"]
            yield ("use_after_implicit", ins(k + 1, "  use iso_fortran_env"), {k, k + 1}, r"USE statements after IMPLICIT statement", 1, {}, [])
    # 12 procedure before CONTAINS
    for sc in scopes:
        if "contains" in sc and sc["kind"] in ("module", "program", "subroutine", "function", "submodule"):
            c = sc["contains"]
            yield ("procedure_before_contains", ins(c, "  subroutine early_sub()", "  end subroutine early_sub"), {c}, r"Subroutine/Function definition before CONTAINS statement", 1, {}, [])
    # 13 procedure nested in a type or block
    for sc in scopes:
        if sc["kind"] in ("type", "block", "do", "if") and sc["end"] - sc["start"] >= 1:
            k = sc["start"] + 1
            yield ("procedure_in_" + ("type" if sc["kind"] == "type" else "block"), ins(k, "    subroutine bad_nested()", "    end subroutine bad_nested"), {k},
                   r'Invalid parent for "SUBROUTINE" declaration', 1, {}, [])
    # 14 deferred binding not implemented
    deferred = {}
    for sc in scopes:
        if sc["kind"] == "type":
            for j in range(sc["start"], sc["end"]):
                m = re.match(r"^\s*procedure\s*\(\w+\)\s*,\s*deferred\s*::\s*(\w+)", lines[j], re.I)
                if m:
                    deferred.setdefault(sc["name"].lower(), []).append(m.group(1))
    for sc in scopes:
        if sc["kind"] == "type":
            m = re.search(r"extends\s*\(\s*(\w+)\s*\)", lines[sc["start"]], re.I)
            if m and m.group(1).lower() in deferred:
                for nm in deferred[m.group(1).lower()]:
                    for j in range(sc["start"], sc["end"]):
                        if re.match(rf"^\s*procedure\s*::\s*{nm}\b", lines[j], re.I):
                            new = lines[:j] + lines[j + 1:]
                            yield ("deferred_not_implemented", new, {sc["end"] - 1}, rf'Deferred procedure "{nm}" not implemented', 1, {}, [])
    # 15 over-long line
    for i, ln in enumerate(lines):
        if re.match(r"^\s*\w+(%\w+)*\s*=\s*[^=]", ln) and "!" not in ln and "'" not in ln and '"' not in ln:
            new = list(lines)
            new[i] = ln + " + 0" * 30
            yield ("line_too_long", new, {i}, r'Line length exceeds "max_line_length" \(100\)', 2, {}, ["--max_line_length", "100"])


def _scope_of(scopes, line):
    best = None
    for s in scopes:
        if s["start"] <= line <= s["end"] and (best is None or s["start"] >= best["start"]):
            best = s
    return best


CLASS_MESSAGES = {
    "declared_twice": r"declared twice in scope", "masks_host": r"masks variable in parent scope", "bare_end": r"Unexpected end",
    "unknown_module": r"not found in project", "type_not_accessible": r"not found in scope", "dummy_undeclared": r"No matching declaration",
    "intent_not_argument": r"INTENT keyword not found", "second_contains": r"Multiple CONTAINS", "outside_scope": r"without enclosing scope",
    "import_outside_interface": r"IMPORT statement outside", "use_after_implicit": r"USE statements after IMPLICIT",
    "procedure_before_contains": r"before CONTAINS", "procedure_in_type": r"Invalid parent", "procedure_in_block": r"Invalid parent",
    "deferred_not_implemented": r"not implemented", "line_too_long": r"Line length exceeds",
}


def diagnostics_of(files, argv=()):
    sc = worker_scratch("c07")
    sc.wipe()
    root = os.path.realpath(os.path.join(sc.path, "w"))
    os.makedirs(root)
    for n, t in files.items():
        with open(os.path.join(root, n), "w") as f:
            f.write(t)
    s = Server(list(argv))
    s.initialize(root)
    out = {}
    for n in files:
        msgs = s.save(os.path.join(root, n))
        for o in msgs:
            if o.get("method") == "textDocument/publishDiagnostics":
                out[n] = [(d["range"]["start"]["line"], d.get("severity"), d["message"]) for d in o["params"]["diagnostics"]]
            elif o.get("method") == "window/showMessage" and o["params"]["type"] == 1:
                out.setdefault(n, []).append((-1, 1, "showMessage: " + o["params"]["message"]))
    return out


def valid_case(job, acc: Acc):
    name, text = job
    d = diagnostics_of({"prog.f90": text}, LIMITS if name.endswith("+limits") else ())
    errs = [x for x in d.get("prog.f90", []) if x[1] == 1]
    acc.case(nontrivial_key=("valid", name), outcome=("valid", len(d.get("prog.f90", []))))
    for ln, sev, msg in errs:
        acc.violation(Violation("valid", {"family": "valid", "program": name, "obs": "error_on_valid_program", "message_class": re.sub(r'"[^"]*"', '""', msg)[:50]},
                                {"program": name, "text": text}, "no error-severity diagnostic", (ln, msg), what=f"{name}: line {ln}: {msg}"))


def base_text(pname):
    """Base programs: the canonical corpus, or 'tree:<index>' = a generated structure tree of C04."""
    if pname.startswith("tree:"):
        from . import c04

        b, idx = map(int, pname[5:].split(":"))
        units = _TREES.get(b)
        if units is None:
            units = _TREES[b] = list(c04.gen_files(b))
        r = c04.render_file(units[idx], 1, 0)
        return "\n".join(r.lines) + "\n"
    return programs.PROGRAMS[pname]


_TREES = {}


# the diagnostic classes must not depend on unrelated options: every seed is also run with generous line-length limits
# switched on (the limits are checked by a separate pass over the text that shares its result list with the parser)
LIMITS = ["--max_line_length", "500", "--max_comment_line_length", "500"]


def seeded_case(job, acc: Acc):
    pname, k, with_limits = job if len(job) == 3 else (*job, False)
    lines = base_text(pname).rstrip("\n").split("\n")
    cls, new, offending, msg_re, sev, extra, argv = list(seeders(lines))[k]
    if with_limits:
        if "--max_line_length" in argv:
            return
        argv = list(argv) + LIMITS
    files = {"prog.f90": "\n".join(new) + "\n", **extra}
    d = diagnostics_of(files, argv)
    diags = d.get("prog.f90", [])
    base_cls = cls.split(":")[0]
    hits = [x for x in diags if re.search(msg_re, x[2]) and x[1] == sev]
    on_line = [x for x in hits if x[0] in offending]
    acc.case(nontrivial_key=(pname, cls, tuple(sorted(offending)), with_limits), outcome=(cls, bool(on_line), with_limits))
    case = {"program": pname, "class": cls, "seed_index": k, "text": files["prog.f90"], "offending_lines": sorted(offending), "with_limits": with_limits}
    tags = {"family": "seeded", "class": cls, "program": pname, "with_limits": with_limits}
    if not hits:
        acc.violation(Violation("seeded", {**tags, "obs": "not_reported"}, case, (msg_re, sev, sorted(offending)), diags,
                                what=f"{pname} {cls} at {sorted(offending)}: no diagnostic of the class; got {diags[:4]}"))
    elif not on_line:
        acc.violation(Violation("seeded", {**tags, "obs": "wrong_line"}, case, sorted(offending), [x[0] for x in hits],
                                what=f"{pname} {cls}: reported on lines {[x[0] for x in hits]}, offending {sorted(offending)}"))
    # one construct was left open: one error (the constructs around it are closed properly)
    if base_cls == "bare_end" and len(hits) > 1:
        acc.violation(Violation("seeded", {**tags, "obs": "reported_more_than_once"}, case, 1, [x[:2] for x in hits],
                                what=f"{pname} {cls}: {len(hits)} 'Unexpected end' errors for one open construct: lines {[x[0] for x in hits]}"))
    # no unrelated error
    own = CLASS_MESSAGES[base_cls]
    for fn, ds in d.items():
        for ln, sv, msg in ds:
            if sv == 1 and not re.search(own, msg):
                acc.violation(Violation("seeded", {**tags, "obs": "unrelated_error", "message_class": re.sub(r'"[^"]*"', '""', msg)[:50]}, case,
                                        "no error of another class", (fn, ln, msg), what=f"{pname} {cls}: unrelated error {fn}:{ln}: {msg}"))
                break
    if len(acc.samples) < 2:
        acc.sample({"program": pname, "class": cls, "offending_lines": sorted(offending), "expected_message": msg_re})


# ----------------------------------------------------------------- multi-file
# The deferred-binding class is a relation between types that may live in different files: the chain
# abstract base (deferred binding) <- abstract intermediates <- concrete type is spread over one file per type and
# delivered in every order, at start-up (scripted enumeration order) and by opening the files one at a time.
def chain_files(depth, implemented):
    files = {"cf0_base.f90": (
        "module cf0_mod\n  implicit none\n  type, abstract :: cf0_t\n  contains\n    procedure(cf_area_if), deferred :: area\n"
        "  end type cf0_t\n  abstract interface\n    function cf_area_if(self) result(a)\n      import :: cf0_t\n"
        "      class(cf0_t), intent(in) :: self\n      real :: a\n    end function cf_area_if\n  end interface\nend module cf0_mod\n")}
    for i in range(1, depth - 1):
        files[f"cf{i}_mid.f90"] = (f"module cf{i}_mod\n  use cf{i - 1}_mod\n  implicit none\n  type, abstract, extends(cf{i - 1}_t) :: cf{i}_t\n"
                                   f"    real :: scale{i}\n  end type cf{i}_t\nend module cf{i}_mod\n")
    k = depth - 1
    body = [f"module cf{k}_mod", f"  use cf{k - 1}_mod", "  implicit none", f"  type, extends(cf{k - 1}_t) :: cf{k}_t", "    real :: r"]
    if implemented:
        body += ["  contains", "    procedure :: area => cf_leaf_area"]
    end_line = len(body)
    body += [f"  end type cf{k}_t"]
    if implemented:
        body += ["contains", "  function cf_leaf_area(self) result(a)", f"    class(cf{k}_t), intent(in) :: self", "    real :: a", "    a = self%r",
                 "  end function cf_leaf_area"]
    body += [f"end module cf{k}_mod"]
    leaf = f"cf{k}_leaf.f90"
    files[leaf] = "\n".join(body) + "\n"
    return files, leaf, end_line


def chain_jobs(max_depth):
    import itertools

    for depth in range(2, max_depth + 1):
        names = sorted(chain_files(depth, True)[0])
        for order in itertools.permutations(names):
            for implemented in (False, True):
                for mode in ("cold", "open"):
                    yield (depth, order, implemented, mode)


def chain_case(job, acc: Acc):
    depth, order, implemented, mode = job
    files, leaf, end_line = chain_files(depth, implemented)
    sc = worker_scratch("c07")
    sc.wipe()
    root = os.path.realpath(os.path.join(sc.path, "w"))
    os.makedirs(root)
    s = Server([])
    if mode == "cold":
        for n, t in files.items():
            with open(os.path.join(root, n), "w") as f:
                f.write(t)
        real = s.srv._get_source_files
        rank = {n: i for i, n in enumerate(order)}
        s.srv._get_source_files = lambda: sorted(real(), key=lambda q: rank[os.path.basename(q)])
        s.initialize(root)
    else:
        s.initialize(root)
        for n in order:
            with open(os.path.join(root, n), "w") as f:
                f.write(files[n])
            s.open(os.path.join(root, n), files[n])
    d = {}
    for n in order:
        for o in s.save(os.path.join(root, n)):
            if o.get("method") == "textDocument/publishDiagnostics":
                d[n] = [(x["range"]["start"]["line"], x.get("severity"), x["message"]) for x in o["params"]["diagnostics"]]
    errs = [(n, *x) for n, ds in d.items() for x in ds if x[1] == 1]
    want = [] if implemented else [(leaf, end_line, 1, 'Deferred procedure "area" not implemented')]
    acc.case(nontrivial_key=job, outcome=(depth, implemented, len(errs)))
    case = {"depth": depth, "order": list(order), "implemented": implemented, "mode": mode, "files": files}
    tags = {"family": "multifile", "class": "deferred_not_implemented", "depth": depth, "mode": mode,
            "leaf_first": order.index(leaf) < order.index("cf0_base.f90")}
    if sorted(errs) != sorted(want):
        obs = "error_on_valid_program" if implemented else ("not_reported" if not errs else "wrong_or_unrelated")
        acc.violation(Violation("multifile", {**tags, "obs": obs}, case, want, errs,
                                what=f"EXTENDS chain of {depth} over files {list(order)} ({mode}), binding "
                                     f"{'implemented' if implemented else 'missing'}: expected errors {want}, got {errs}"))
    if len(acc.samples) < 1 and not implemented and depth == 3:
        acc.sample({"depth": depth, "order": list(order), "mode": mode, "leaf": files[leaf], "expected": want})


# --------------------------------------------------------- interface bodies
IFACE_BLOCKS = {"unnamed": ("interface", "end interface"), "abstract": ("abstract interface", "end interface"),
                "generic": ("interface apply_g", "end interface apply_g")}
IFACE_IMPORTS = {"import_named": ("    import :: host_t", True), "import_all": ("    import", True), "import_two": ("    import :: other_t, host_t", True),
                 "no_import": (None, False), "import_other_only": ("    import :: other_t", False)}


def iface_jobs():
    for block in IFACE_BLOCKS:
        # (hosts whose types are known project-wide; a type local to an external procedure is outside "defined in the project")
        for host in ("module", "program"):
            for imp in IFACE_IMPORTS:
                for use_kind in ("type", "class_ptr"):
                    yield (block, host, imp, use_kind)


def iface_case(job, acc: Acc):
    """A derived type of the host is accessible in an interface body only through IMPORT, whatever the kind of the
    interface block (unnamed, abstract, named generic) and of the host."""
    block, host, imp, use_kind = job
    opener, closer = IFACE_BLOCKS[block]
    imp_line, valid = IFACE_IMPORTS[imp]
    head = {"module": ["module ih", "  implicit none"], "program": ["program ih", "  implicit none"], "subroutine": ["subroutine ih()", "  implicit none"]}[host]
    L = head + ["  type :: host_t", "    integer :: c", "  end type host_t", "  type :: other_t", "    integer :: d", "  end type other_t", "  " + opener,
                "    subroutine body_s(a)"]
    if imp_line:
        L.append("  " + imp_line)
    use_line = len(L)
    L.append("      type(host_t) :: a" if use_kind == "type" else "      class(host_t), pointer :: a")
    L += ["    end subroutine body_s", "  " + closer, "end " + host + " ih"]
    text = "\n".join(L) + "\n"
    d = diagnostics_of({"prog.f90": text}).get("prog.f90", [])
    errs = [x for x in d if x[1] == 1]
    acc.case(nontrivial_key=job, outcome=(valid, len(errs)))
    tags = {"family": "interface_import", "block": block, "host": host, "import": imp}
    cs = {"job": list(job), "text": text}
    if valid:
        for ln, sev, msg in errs:
            acc.violation(Violation("interface_import", {**tags, "obs": "error_on_valid_program"}, cs, "no error", [ln, msg], what=f"{job}: valid, but line {ln}: {msg}"))
    else:
        hit = [x for x in errs if x[0] == use_line and re.search(r"host_t", x[2]) and re.search(r"not (imported|found)", x[2])]
        if not hit:
            acc.violation(Violation("interface_import", {**tags, "obs": "missing"}, cs, f"an error about host_t on line {use_line}", d, what=f"{job}: host_t is not accessible in the interface body, diagnostics {d}"))
        for ln, sev, msg in errs:
            if ln != use_line:
                acc.violation(Violation("interface_import", {**tags, "obs": "unrelated_error"}, cs, "no other error", [ln, msg], what=f"{job}: line {ln}: {msg}"))


def main(ctx):
    ctx.rule = ("valid: 6 canonical programs + 6 programs using the bundled intrinsic modules + every generated structure tree of C04 up "
                "to a node budget must publish no error-severity diagnostic; seeded: for every canonical program and every small "
                "structure tree, every applicable (defect class, position) pair of the 15 "
                "classes (16 seeders) is applied and the diagnostics of the seeded workspace are checked for class, severity, "
                "offending line and absence of unrelated errors. Non-trivial: all; distinct by (program, class, position).")
    ctx.assumptions = ["for a defect that is a relation between two statements either statement's line is accepted as 'the "
                       "offending line' (duplicate declarations, CONTAINS pair, USE/IMPLICIT pair, opening/END line of an open "
                       "construct)", "the canonical programs are valid Fortran 2008 (gfortran) and one statement per line"]
    from . import c04

    tree_budget = 3 if ctx.quick else 4
    tree_names = [f"tree:{b}:{i}" for b in range(1, tree_budget + 1) for i, _ in enumerate(c04.gen_files(b))]
    valid = [(n, t) for n, t in programs.PROGRAMS.items()] + list(INTRINSIC_PROGRAMS.items()) + [(n, base_text(n)) for n in tree_names]
    valid += [(n + "+limits", t) for n, t in programs.PROGRAMS.items()]
    valid += list(VALID_EXTRA.items())
    from . import c04 as _c04

    valid += [("same_names:" + n, "\n".join(t for t, _, _ in lines) + "\n") for n, (lines, _) in _c04._collision_programs().items()]
    vacc = core.pmap(valid_case, valid, chunk=1, budget_s=60, label="C07/valid")
    ctx.add_family("valid", vacc)
    jobs = []
    per_class = {}
    seed_bases = list(programs.PROGRAMS) + [n for n in tree_names if int(n.split(":")[1]) <= (2 if ctx.quick else 3)]
    for pname in seed_bases:
        text = base_text(pname)
        lines = text.rstrip("\n").split("\n")
        for k, sd in enumerate(seeders(lines)):
            jobs.append((pname, k, False))
            if pname in programs.PROGRAMS:
                jobs.append((pname, k, True))
            per_class[sd[0].split(":")[0]] = per_class.get(sd[0].split(":")[0], 0) + 1
    sacc = core.pmap(seeded_case, jobs, chunk=8, budget_s=120, label="C07/seeded")
    ctx.add_family("seeded", sacc, seeds_per_class=per_class)
    cj = list(chain_jobs(3 if ctx.quick else 4))
    cacc = core.pmap(chain_case, cj, chunk=4, budget_s=120, label="C07/multifile")
    ctx.add_family("multifile", cacc, what="deferred binding over an EXTENDS chain of 2..%d types, one file per type, every file order, "
                   "at start-up and opened one by one, binding implemented / missing" % (3 if ctx.quick else 4))
    iacc = core.pmap(iface_case, list(iface_jobs()), chunk=4, budget_s=120, label="C07/iface")
    ctx.add_family("interface_import", iacc, what="a host's derived type named in an interface body: 3 kinds of interface block (unnamed, abstract, named generic) x 2 hosts (module, program) x "
                   "5 IMPORT forms (two of them leave the type inaccessible) x TYPE / CLASS declaration")
    missing = [c for c in CLASS_MESSAGES if c.split(":")[0] not in per_class and c not in ("procedure_in_type", "procedure_in_block")]
    if missing:
        raise core.HarnessError(f"no seeding position for classes {missing}")


def replay(rec):
    c = rec["case"]
    acc = Acc()
    if rec["family"] == "multifile":
        chain_case((c["depth"], tuple(c["order"]), c["implemented"], c["mode"]), acc)
    elif rec["family"] == "interface_import":
        iface_case(tuple(c["job"]), acc)
    elif rec["family"] == "valid":
        valid_case((c["program"], c["text"]), acc)
    else:
        seeded_case((c["program"], c["seed_index"], c.get("with_limits", False)), acc)
    return [v.to_json("C07") for v in acc.violations] or None
