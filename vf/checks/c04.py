"""C04 — outline and workspace symbols mirror the program's block structure.

Bounded-exhaustive enumeration of structure trees: program units (module,
submodule, program, external subroutine/function) containing derived types (with
components and bindings), named generic interfaces, abstract interfaces with
bodies, module / internal procedures (CONTAINS nesting) and executable constructs
(BLOCK, DO plain / named / labelled, IF, SELECT CASE, SELECT TYPE, ASSOCIATE, WHERE, nested), up
to a node budget, each rendered with 5 END forms x 3 spacing styles.  The renderer
knows the line of every opening and END statement (source map), which gives the
expected outline; workspace/symbol is asked for every substring (length <= 3) of
every name in lower, upper and mixed case plus a non-matching query.
"""
from __future__ import annotations

import itertools
import os

from .. import core
from ..core import Acc, Violation
from ..driver import Server, worker_scratch

LEVEL = "exploration"

K_MODULE, K_CLASS, K_METHOD, K_FUNCTION, K_VARIABLE, K_INTERFACE = 2, 5, 6, 12, 13, 11

# ------------------------------------------------------------------ tree model
# node = (kind, [children]);  kinds:
UNITS = ("MOD", "PROG", "ESUB", "EFUN", "SMOD")
CONSTRUCTS = ("BLOCK", "DO", "NDO", "LDO", "LDE", "IF", "SELC", "SELT", "ASSOC", "WHERE")


NESTABLE = ("BLOCK", "DO", "NDO", "LDO", "LDE", "IF", "ASSOC")


def gen_constructs(budget, depth):
    """Sequences of executable constructs using exactly `budget` nodes."""
    if budget == 0:
        yield ()
        return
    for c in range(1, budget + 1):
        for first in gen_construct(c, depth):
            for rest in gen_constructs(budget - c, depth):
                yield (first,) + rest


def gen_construct(c, depth):
    for k in CONSTRUCTS:
        if c == 1:
            yield (k, ())
        elif depth > 1 and k in NESTABLE:
            for inner in gen_constructs(c - 1, depth - 1):
                yield (k, inner)


def gen_proc_children(budget):
    """children of a module/internal-capable procedure: constructs + internal procs"""
    for nint in range(0, budget + 1):
        for cons in gen_constructs(budget - nint, 2):
            for ints in itertools.product(("ISUB", "IFUN"), repeat=nint):
                yield cons + tuple((k, ()) for k in ints)


def gen_type_children(budget, have_proc):
    items = ("COMP", "BIND") if have_proc else ("COMP",)
    for combo in itertools.product(items, repeat=budget):
        # components first, then bindings (grammar of a derived type definition)
        if list(combo) == sorted(combo, key=lambda x: x != "COMP"):
            yield tuple((k, ()) for k in combo)


def gen_module_children(budget):
    """specification entities then module procedures"""
    for nproc in range(0, min(budget, 2) + 1):
        rest = budget - nproc
        for pkinds in itertools.product(("SUB", "FUN"), repeat=nproc):
            for spec in gen_spec(rest, nproc > 0):
                # procedure children are kept empty here (their bodies are exercised under PROG/ESUB)
                yield spec + tuple((k, ()) for k in pkinds)


def gen_spec(budget, have_proc):
    if budget == 0:
        yield ()
        return
    for c in range(1, budget + 1):
        firsts = []
        if c == 1:
            firsts.append(("AINT", ()))
            if have_proc:
                firsts.append(("GINT", ()))
        for tc in gen_type_children(c - 1, have_proc):
            firsts.append(("TYPE", tc))
        for first in firsts:
            for rest in gen_spec(budget - c, have_proc):
                yield (first,) + rest


def gen_unit(c, have_module):
    inner = c - 1
    for ch in gen_module_children(inner):
        yield ("MOD", ch)
    for ch in gen_proc_children(inner):
        yield ("PROG", ch)
        yield ("ESUB", ch)
        if not any(k in ("ISUB", "IFUN") for k, _ in ch) or inner <= 2:
            yield ("EFUN", ch)
    if have_module and inner <= 2:
        for pk in itertools.product(("SUB", "FUN"), repeat=inner):
            yield ("SMOD", tuple((k, ()) for k in pk))


def gen_files(budget):
    """Files = sequences of units with exactly `budget` nodes in total."""
    def rec(b, have_module, have_prog):
        if b == 0:
            yield ()
            return
        for c in range(1, b + 1):
            for u in gen_unit(c, have_module):
                if u[0] == "PROG" and have_prog:
                    continue
                for rest in rec(b - c, have_module or u[0] == "MOD", have_prog or u[0] == "PROG"):
                    yield (u,) + rest
    yield from rec(budget, False, False)


# ------------------------------------------------------------------ rendering
END_FORMS = 5
SPACINGS = 3


class R:
    def __init__(self, endform, spacing):
        self.lines = []
        self.endform, self.spacing = endform, spacing
        self.n = 0
        self.expected = []      # (name, kind, container, sline, eline)
        self.members = []       # (name, kind, container type, line)
        self.module_members = set()
        self.top_units = set()
        self.label = 100

    def name(self, prefix):
        self.n += 1
        return f"{prefix}{'abcdefghijklmnopqrstuvwxyz'[self.n % 26]}{self.n}"

    def add(self, depth, text):
        ind = "" if self.spacing == 1 else "  " * depth
        if self.spacing == 2:
            text = text.replace(" :: ", "  ::  ").replace("(", " ( ").replace(")", " ) ").replace(",", " , ").rstrip()
            text = text.replace(" (  ) ", "()").replace(" ( )", "()")
        self.lines.append(ind + text)
        return len(self.lines) - 1

    def end(self, depth, kw, name, need_kw=False):
        f = self.endform
        if f == 0 and need_kw:
            f = 1
        if f == 0:
            t = "end"
        elif f == 1:
            t = f"end {kw}"
        elif f == 2:
            t = f"end{kw}"
        elif f == 3:
            t = f"end {kw} {name}" if name else f"end {kw}"
        else:
            t = f"END  {kw.upper()}"
        ind = "" if self.spacing == 1 else "  " * depth
        self.lines.append(ind + t)
        return len(self.lines) - 1


def render_constructs(r: R, depth, nodes):
    for kind, ch in nodes:
        if kind == "BLOCK":
            r.add(depth, "block")
            r.add(depth + 1, "integer :: " + r.name("bv"))
            render_constructs(r, depth + 1, ch)
            r.end(depth, "block", None, need_kw=True)
        elif kind in ("DO", "NDO"):
            nm = r.name("lp") if kind == "NDO" else None
            r.add(depth, (nm + ": " if nm else "") + "do i = 1, 3")
            r.add(depth + 1, "k = k + i")
            render_constructs(r, depth + 1, ch)
            if nm and r.endform in (3,):
                r.end(depth, "do", nm, need_kw=True)
            elif nm:
                r.lines.append(("" if r.spacing == 1 else "  " * depth) + f"end do {nm}")
            else:
                r.end(depth, "do", None, need_kw=True)
        elif kind in ("LDO", "LDE"):
            # labels are local to a program unit / procedure: they restart in each (render_proc), so the same label
            # occurs several times in one file; LDE: the label-terminated DO ends with a labelled END DO
            r.label += 10
            lab = r.label
            r.add(depth, f"do {lab} i = 1, 3")
            r.add(depth + 1, "k = k + i")
            render_constructs(r, depth + 1, ch)
            r.lines.append(f"{lab} continue" if kind == "LDO" else f"{lab} end do")
        elif kind == "IF":
            r.add(depth, "if (k > 0) then")
            r.add(depth + 1, "k = 1")
            render_constructs(r, depth + 1, ch)
            r.add(depth, "else")
            r.add(depth + 1, "k = 2")
            r.end(depth, "if", None, need_kw=True)
        elif kind == "SELC":
            r.add(depth, "select case (k)")
            r.add(depth, "case (1)")
            r.add(depth + 1, "k = 3")
            r.add(depth, "case default")
            r.add(depth + 1, "k = 4")
            r.end(depth, "select", None, need_kw=True)
        elif kind == "SELT":
            # CLASS DEFAULT need not be the last guard
            r.add(depth, "select type (poly)")
            r.add(depth, "type is (integer)")
            r.add(depth + 1, "k = 6")
            r.add(depth, "class default")
            r.add(depth + 1, "k = 7")
            r.add(depth, "type is (real)")
            r.add(depth + 1, "k = 8")
            r.end(depth, "select", None, need_kw=True)
        elif kind == "ASSOC":
            r.add(depth, "associate (z => k)")
            r.add(depth + 1, "z = 5")
            render_constructs(r, depth + 1, ch)
            r.end(depth, "associate", None, need_kw=True)
        elif kind == "WHERE":
            r.add(depth, "where (arr > 0)")
            r.add(depth + 1, "arr = 1")
            r.end(depth, "where", None, need_kw=True)


def render_proc(r: R, depth, kind, ch, container, listed, mod_prefix=""):
    """kind in SUB FUN ISUB IFUN ESUB EFUN; returns name"""
    fun = kind.endswith("FUN")
    nm = r.name("fn" if fun else "sb")
    saved_label, r.label = r.label, 100
    head = f"{mod_prefix}function {nm}(x) result(res)" if fun else f"{mod_prefix}subroutine {nm}(x)"
    s = r.add(depth, head)
    r.add(depth + 1, "integer :: x, i, k")
    r.add(depth + 1, "integer :: arr(3)")
    r.add(depth + 1, "class(*), allocatable :: poly")
    if fun:
        r.add(depth + 1, "integer :: res")
    r.add(depth + 1, "k = x")
    r.add(depth + 1, "arr = 0")
    if fun:
        r.add(depth + 1, "res = k")
    cons = [c for c in ch if c[0] in CONSTRUCTS]
    ints = [c for c in ch if c[0] in ("ISUB", "IFUN")]
    render_constructs(r, depth + 1, cons)
    if ints:
        r.add(depth, "contains")
        for k, c in ints:
            render_proc(r, depth + 1, k, c, nm, listed=False)
    e = r.end(depth, "function" if fun else "subroutine", nm)
    r.label = saved_label
    if listed:
        r.expected.append((nm, K_FUNCTION, container, s, e))
    return nm


def render_unit(r: R, unit, modules):
    kind, ch = unit
    if kind == "MOD":
        nm = r.name("md")
        s = r.add(0, f"module {nm}")
        r.add(1, "implicit none")
        procs = [c for c in ch if c[0] in ("SUB", "FUN")]
        specs = [c for c in ch if c[0] not in ("SUB", "FUN")]
        proc_names = [None] * len(procs)
        # names of module procedures are needed by bindings / generic interfaces before they are rendered
        save_n = r.n
        pn = []
        for k, _ in procs:
            pn.append(None)
        members = []
        pending_bind = []
        for k, c in specs:
            if k == "TYPE":
                tn = r.name("ty")
                ts = r.add(1, f"type :: {tn}")
                comps = [x for x in c if x[0] == "COMP"]
                binds = [x for x in c if x[0] == "BIND"]
                for _ in comps:
                    cn = r.name("cp")
                    ln = r.add(2, f"integer :: {cn}")
                    r.members.append((cn, K_VARIABLE, tn, ln))
                if binds:
                    r.add(1, "contains")
                    for _ in binds:
                        bn = r.name("bd")
                        ln = r.add(2, f"procedure, nopass :: {bn} => @PROC0@")
                        r.members.append((bn, K_METHOD, tn, ln))
                te = r.end(1, "type", tn, need_kw=True)
                r.expected.append((tn, K_CLASS, nm, ts, te))
                members.append(tn)
            elif k == "GINT":
                gn = r.name("gi")
                gs = r.add(1, f"interface {gn}")
                r.add(2, "module procedure @PROC0@")
                ge = r.end(1, "interface", gn, need_kw=True)
                r.expected.append((gn, K_INTERFACE, nm, gs, ge))
                members.append(gn)
            elif k == "AINT":
                an = r.name("ab")
                r.add(1, "abstract interface")
                r.add(2, f"subroutine {an}(q)")
                r.add(3, "integer :: q")
                r.end(2, "subroutine", an)
                r.end(1, "interface", None, need_kw=True)
        vn = r.name("mv")
        r.add(1, f"integer :: {vn}")
        members.append(vn)
        first_proc = None
        if procs:
            r.add(0, "contains")
            for k, c in procs:
                p = render_proc(r, 1, k, c, nm, listed=True)
                first_proc = first_proc or p
                members.append(p)
        e = r.end(0, "module", nm)
        r.lines = [ln.replace("@PROC0@", first_proc or "none") for ln in r.lines]
        r.expected.append((nm, K_MODULE, None, s, e))
        r.top_units.add(nm)
        r.module_members.update(members)
        modules.append(nm)
    elif kind == "SMOD":
        nm = r.name("sm")
        # a second submodule of the same module descends from the first one: submodule (ancestor:parent) name
        prev = getattr(r, "last_smod", {}).get(modules[-1])
        head = f"submodule ({modules[-1]}{':' + prev if prev else ''}) {nm}"
        if prev and r.spacing == 2:
            head = head.replace(":", " : ")
        s = r.add(0, head)
        if not hasattr(r, "last_smod"):
            r.last_smod = {}
        r.last_smod[modules[-1]] = nm
        if ch:
            r.add(0, "contains")
            for k, c in ch:
                render_proc(r, 1, k, c, nm, listed=True)
        e = r.end(0, "submodule", nm)
        r.expected.append((nm, K_MODULE, None, s, e))
        r.top_units.add(nm)
    elif kind == "PROG":
        nm = r.name("pg")
        s = r.add(0, f"program {nm}")
        r.add(1, "implicit none")
        r.add(1, "integer :: i, k")
        r.add(1, "integer :: arr(3)")
        r.add(1, "class(*), allocatable :: poly")
        r.add(1, "k = 0")
        r.add(1, "arr = 0")
        render_constructs(r, 1, [c for c in ch if c[0] in CONSTRUCTS])
        ints = [c for c in ch if c[0] in ("ISUB", "IFUN")]
        if ints:
            r.add(0, "contains")
            for k, c in ints:
                render_proc(r, 1, k, c, nm, listed=True)
        e = r.end(0, "program", nm)
        r.expected.append((nm, K_MODULE, None, s, e))
        r.top_units.add(nm)
    else:
        nm = render_proc(r, 0, kind, ch, None, listed=True)
        r.top_units.add(nm)


def render_file(units, endform, spacing):
    r = R(endform, spacing)
    modules = []
    for u in units:
        render_unit(r, u, modules)
    return r


# ------------------------------------------------------------------- checking
def check_file(job, acc: Acc):
    units, endform, spacing = job
    r = render_file(units, endform, spacing)
    text = "\n".join(r.lines) + "\n"
    sc = worker_scratch("c04")
    sc.wipe()
    root = os.path.realpath(sc.path)
    path = os.path.join(root, "gen.f90")
    with open(path, "w") as f:
        f.write(text)
    s = Server([])
    s.initialize(root)
    syms = s.result("textDocument/documentSymbol", {"textDocument": Server.tdpp(path, 0, 0)["textDocument"]})
    case = {"units": repr(units), "endform": endform, "spacing": spacing, "text": text}
    tags0 = {"family": "outline", "endform": endform, "spacing": spacing}
    shape = tuple(sorted({k for u in units for k in _kinds(u)}))
    acc.case(nontrivial_key=(repr(units), endform, spacing), outcome=(shape, endform, spacing))
    if not isinstance(syms, list):
        acc.violation(Violation("outline", {**tags0, "obs": "no_result", "entity": ""}, case, "a list", syms))
        return
    got = {}
    for y in syms:
        rg = y["location"]["range"]
        got.setdefault(y["name"].lower(), []).append((y["kind"], y.get("containerName"), rg["start"]["line"], rg["end"]["line"]))
    for (nm, kind, cont, sl, el) in r.expected:
        hits = got.get(nm.lower(), [])
        want = (kind, cont, sl, el)
        ent = nm[:2]
        if len(hits) != 1:
            acc.violation(Violation("outline", {**tags0, "obs": f"listed_{len(hits)}_times", "entity": ent}, case, want, hits,
                                    what=f"{nm} listed {len(hits)} times (endform {endform}, spacing {spacing})"))
        elif (hits[0][0], (hits[0][1] or "").lower() or None, hits[0][2], hits[0][3]) != (kind, cont.lower() if cont else None, sl, el):
            h = hits[0]
            obs = "kind" if h[0] != kind else ("container" if (h[1] or "").lower() != (cont or "").lower() else ("start_line" if h[2] != sl else "end_line"))
            acc.violation(Violation("outline", {**tags0, "obs": obs, "entity": ent}, case, want, h,
                                    what=f"{nm}: expected {want}, got {h} (endform {endform}, spacing {spacing})"))
    for (nm, kind, tname, ln) in r.members:
        hits = [h for h in got.get(nm.lower(), []) if (h[1] or "").lower() == tname.lower()]
        if len(hits) != 1 or hits[0][0] != kind or hits[0][2] != ln:
            acc.violation(Violation("outline", {**tags0, "obs": "type_member", "entity": nm[:2]}, case, (kind, tname, ln), got.get(nm.lower()),
                                    what=f"member {nm} of {tname}: expected kind {kind} line {ln}, got {got.get(nm.lower())}"))
    # ---- workspace/symbol
    names = sorted(r.top_units | r.module_members)
    queries = set()
    for nm in names:
        for a in range(len(nm)):
            for b in range(a + 1, min(len(nm), a + 3) + 1):
                sub = nm[a:b]
                queries.update({sub.lower(), sub.upper(), sub[:1].upper() + sub[1:].lower()})
    queries.add("zq")
    queries.add("")
    prog_members_ok = True
    for q in sorted(queries):
        res = s.result("workspace/symbol", {"query": q})
        acc.count("workspace_queries")
        if not isinstance(res, list):
            acc.violation(Violation("workspace_symbol", {"family": "workspace_symbol", "obs": "no_result"}, {**case, "query": q}, "a list", res))
            continue
        gotn = [y["name"] for y in res]
        want = sorted(n for n in names if q.lower() in n.lower())
        # names the statement neither demands nor forbids: internal '#...' names and members of programs
        req = [n for n in gotn if n in names]
        extra = [n for n in gotn if n not in names and not n.startswith("#") and not _is_program_member(r, n)]
        if sorted(req) != want or extra:
            acc.violation(Violation("workspace_symbol", {"family": "workspace_symbol", "obs": "wrong_set", "query_case": "lower" if q.islower() else ("upper" if q.isupper() else "mixed")},
                                    {**case, "query": q}, want, gotn, what=f"query {q!r}: expected {want}, got {gotn}"))
        elif gotn != sorted(gotn) and gotn != sorted(gotn, key=str.lower):
            acc.violation(Violation("workspace_symbol", {"family": "workspace_symbol", "obs": "not_sorted"}, {**case, "query": q}, sorted(gotn), gotn))
    if len(acc.samples) < 2:
        acc.sample({"units": repr(units), "endform": endform, "spacing": spacing, "text": text[:500]})


# ---------------------------------------------------------------- same names
# Fortran lets distinct entities of one file share a name: a generic interface named like a derived type (the
# constructor idiom) or like one of its specific procedures, members of different modules, components of different
# types.  Each must still be listed exactly once under its own container.  A program is a list of
# (text, opens, closes): `opens`/`closes` name the entity (key) whose opening / END statement the line is.
def _collision_programs():
    P = {}
    for order in ("type_first", "interface_first"):
        ty = [("  type :: vec", ("vec#t", "vec", K_CLASS, "shapes"), None), ("    real :: x", None, None), ("  end type vec", None, "vec#t")]
        gi = [("  interface vec", ("vec#i", "vec", K_INTERFACE, "shapes"), None), ("    module procedure vec_new", None, None),
              ("  end interface vec", None, "vec#i")]
        body = (ty + gi) if order == "type_first" else (gi + ty)
        P["constructor_idiom:" + order] = (
            [("module shapes", ("shapes", "shapes", K_MODULE, None), None), ("  implicit none", None, None)] + body +
            [("contains", None, None), ("  function vec_new(a) result(v)", ("vec_new", "vec_new", K_FUNCTION, "shapes"), None),
             ("    real, intent(in) :: a", None, None), ("    type(vec) :: v", None, None), ("    v%x = a", None, None),
             ("  end function vec_new", None, "vec_new"), ("end module shapes", None, "shapes")],
            [("x", K_VARIABLE, "vec", None)])
    P["generic_named_like_specific"] = (
        [("module gs", ("gs", "gs", K_MODULE, None), None), ("  implicit none", None, None),
         ("  interface area", ("area#i", "area", K_INTERFACE, "gs"), None), ("    module procedure area", None, None),
         ("  end interface area", None, "area#i"), ("contains", None, None),
         ("  function area(r) result(a)", ("area#f", "area", K_FUNCTION, "gs"), None), ("    real, intent(in) :: r", None, None),
         ("    real :: a", None, None), ("    a = r", None, None), ("  end function area", None, "area#f"), ("end module gs", None, "gs")], [])
    two = []
    for m in ("ma", "mb"):
        two += [(f"module {m}", (m, m, K_MODULE, None), None), ("  implicit none", None, None),
                ("  type :: item", (f"item@{m}", "item", K_CLASS, m), None), ("    integer :: val", None, None), ("  end type item", None, f"item@{m}"),
                ("contains", None, None), ("  subroutine work(n)", (f"work@{m}", "work", K_FUNCTION, m), None), ("    integer :: n", None, None),
                ("  end subroutine work", None, f"work@{m}"), (f"end module {m}", None, m)]
    P["same_members_in_two_modules"] = (two, [])
    P["same_component_in_two_types"] = (
        [("module tc", ("tc", "tc", K_MODULE, None), None), ("  implicit none", None, None),
         ("  type :: ta", ("ta", "ta", K_CLASS, "tc"), None), ("    integer :: val", None, None), ("  end type ta", None, "ta"),
         ("  type :: tb", ("tb", "tb", K_CLASS, "tc"), None), ("    integer :: val", None, None), ("  end type tb", None, "tb"),
         ("end module tc", None, "tc")], [("val", K_VARIABLE, "ta", 3), ("val", K_VARIABLE, "tb", 6)])
    P["module_and_external_same_name"] = (
        [("module ex", ("ex", "ex", K_MODULE, None), None), ("  implicit none", None, None), ("contains", None, None),
         ("  subroutine run(n)", ("run@ex", "run", K_FUNCTION, "ex"), None), ("    integer :: n", None, None), ("  end subroutine run", None, "run@ex"),
         ("end module ex", None, "ex"),
         ("subroutine run_all(n)", ("run_all", "run_all", K_FUNCTION, None), None), ("  integer :: n", None, None),
         ("contains", None, None), ("  subroutine run(k)", None, None), ("    integer :: k", None, None), ("  end subroutine run", None, None),
         ("end subroutine run_all", None, "run_all")], [])
    # END statements that repeat a generic spec with parentheses, and ENDFILE statements, which end nothing
    ops = []
    for spec, endspec in (("operator(+)", "operator(+)"), ("assignment(=)", "assignment (=)"), ("operator(.cross.)", "operator (.cross.)")):
        ops += [(f"  interface {spec}", None, None), ("    module procedure " + {"o": "op_add", "a": "as_set"}.get(spec[0], "op_add") + ("" if spec != "operator(.cross.)" else "2"), None, None),
                (f"  end interface {endspec}", None, None)]
    P["end_interface_with_generic_spec"] = (
        [("module opm", ("opm", "opm", K_MODULE, None), None), ("  implicit none", None, None),
         ("  type :: num", ("num", "num", K_CLASS, "opm"), None), ("    integer :: v", None, None), ("  end type num", None, "num")] + ops +
        [("contains", None, None),
         ("  function op_add(a, b) result(c)", ("op_add", "op_add", K_FUNCTION, "opm"), None), ("    type(num), intent(in) :: a, b", None, None),
         ("    type(num) :: c", None, None), ("    c%v = a%v + b%v", None, None), ("  end function op_add", None, "op_add"),
         ("  function op_add2(a, b) result(c)", ("op_add2", "op_add2", K_FUNCTION, "opm"), None), ("    type(num), intent(in) :: a, b", None, None),
         ("    type(num) :: c", None, None), ("    c%v = a%v - b%v", None, None), ("  end function op_add2", None, "op_add2"),
         ("  subroutine as_set(a, b)", ("as_set", "as_set", K_FUNCTION, "opm"), None), ("    type(num), intent(out) :: a", None, None),
         ("    integer, intent(in) :: b", None, None), ("    a%v = b", None, None), ("  end subroutine as_set", None, "as_set"),
         ("end module opm", None, "opm"),
         ("program opp", ("opp", "opp", K_MODULE, None), None), ("  use opm", None, None), ("  implicit none", None, None), ("end program opp", None, "opp")],
        [("v", K_VARIABLE, "num", 3)])
    P["endfile_statements"] = (
        [("module efm", ("efm", "efm", K_MODULE, None), None), ("  implicit none", None, None), ("contains", None, None),
         ("  subroutine ef1(u)", ("ef1", "ef1", K_FUNCTION, "efm"), None), ("    integer, intent(in) :: u", None, None),
         ("    endfile u", None, None), ("    end file u", None, None), ("    endfile (unit=u)", None, None), ("    end file (u)", None, None),
         ("    rewind u", None, None), ("  end subroutine ef1", None, "ef1"),
         ("  subroutine ef2(u)", ("ef2", "ef2", K_FUNCTION, "efm"), None), ("    integer, intent(in) :: u", None, None),
         ("    if (u > 0) end file u", None, None), ("    end file 10", None, None), ("  end subroutine ef2", None, "ef2"),
         ("end module efm", None, "efm")], [])
    return P


def collision_case(name, acc: Acc):
    lines, members = _collision_programs()[name]
    text = "\n".join(t for t, _, _ in lines) + "\n"
    want = {}
    for i, (_, op, cl) in enumerate(lines):
        if op:
            want[op[0]] = [op[1], op[2], op[3], i, None]
        if cl:
            want[cl][4] = i
    sc = worker_scratch("c04")
    sc.wipe()
    root = os.path.realpath(sc.path)
    path = os.path.join(root, "same.f90")
    with open(path, "w") as f:
        f.write(text)
    s = Server([])
    s.initialize(root)
    syms = s.result("textDocument/documentSymbol", {"textDocument": Server.tdpp(path, 0, 0)["textDocument"]})
    acc.case(nontrivial_key=("same_names", name), outcome=("same_names", name))
    case = {"program": name, "text": text}
    tags0 = {"family": "same_names", "program": name.split(":")[0]}
    if not isinstance(syms, list):
        acc.violation(Violation("same_names", {**tags0, "obs": "no_result"}, case, "a list", syms))
        return
    got = [(y["name"].lower(), y["kind"], (y.get("containerName") or "").lower() or None, y["location"]["range"]["start"]["line"],
            y["location"]["range"]["end"]["line"]) for y in syms]
    for key, (nm, kind, cont, sl, el) in want.items():
        hits = [g for g in got if g[:3] == (nm, kind, cont)]
        if len(hits) != 1:
            acc.violation(Violation("same_names", {**tags0, "obs": f"listed_{len(hits)}_times", "entity": key.split("#")[0].split("@")[0]}, case,
                                    (nm, kind, cont, sl, el), [g for g in got if g[0] == nm],
                                    what=f"{name}: {nm} (kind {kind}, container {cont}) listed {len(hits)} times; entries of that name: {[g for g in got if g[0] == nm]}"))
        elif hits[0][3:] != (sl, el):
            acc.violation(Violation("same_names", {**tags0, "obs": "lines", "entity": key.split("#")[0].split("@")[0]}, case, (sl, el), hits[0][3:],
                                    what=f"{name}: {nm} in {cont}: expected lines {(sl, el)}, got {hits[0][3:]}"))
    for nm, kind, cont, ln in members:
        hits = [g for g in got if g[:3] == (nm, kind, cont) and (ln is None or g[3] == ln)]
        if len(hits) != 1:
            acc.violation(Violation("same_names", {**tags0, "obs": "type_member", "entity": nm}, case, (nm, kind, cont, ln), [g for g in got if g[0] == nm],
                                    what=f"{name}: member {nm} of {cont} listed {len(hits)} times"))
    # workspace/symbol: every unit and every module member once per entity (two entities of one name: twice)
    units = {v[0] for v in want.values() if v[2] is None}
    listed = [v[0] for v in want.values() if v[2] is None or v[2] in units]
    for q in sorted({n for n in listed} | {n[:2] for n in listed}):
        res = s.result("workspace/symbol", {"query": q})
        acc.count("workspace_queries")
        gotn = sorted(y["name"].lower() for y in res) if isinstance(res, list) else res
        wantn = sorted(n for n in listed if q.lower() in n.lower())
        if gotn != wantn:
            acc.violation(Violation("same_names", {**tags0, "obs": "workspace_symbol_multiset", "entity": q}, {**case, "query": q}, wantn, gotn,
                                    what=f"{name}: workspace/symbol {q!r}: expected {wantn}, got {gotn}"))
    if len(acc.samples) < 1:
        acc.sample({"program": name, "text": text})


def _kinds(node):
    yield node[0]
    for c in node[1]:
        yield from _kinds(c)


def _is_program_member(r, n):
    return True  # members of programs (variables, internal procedures, named blocks) are tolerated, never required


def nesting_pairs():
    """Every nestable construct around every construct, inside the first of two sibling module procedures (what
    follows a construct that is closed wrongly shows in the sibling), in all renderings."""
    for outer in NESTABLE:
        for inner in CONSTRUCTS:
            for third in ((), (("DO", ()),)):
                # (the sibling procedure repeats the outer construct: labels restart per procedure)
                units = (("MOD", (("SUB", ((outer, ((inner, ()),) + third),)), ("FUN", ((outer, ()),)))),)
                for ef in range(END_FORMS):
                    for sp in range(SPACINGS):
                        yield (units, ef, sp)


def jobs(budget):
    """Trees up to `budget` nodes in all 15 renderings; trees of budget+1 nodes in one
    rendering each (rotating through the 15, so every rendering meets every tree shape class)."""
    for b in range(1, budget + 1):
        for units in gen_files(b):
            for ef in range(END_FORMS):
                for sp in range(SPACINGS):
                    yield (units, ef, sp)
    for k, units in enumerate(gen_files(budget + 1)):
        yield (units, k % END_FORMS, (k // END_FORMS) % SPACINGS)


# ------------------------------------------------------------------ sessions
SESSION_PARENT = {
    "without": "module geo\n  implicit none\n  real :: scale_f\nend module geo\n",
    "with": ("module geo\n  implicit none\n  real :: scale_f\n  interface\n    module function perimeter(r) result(p)\n      real, intent(in) :: r\n"
             "      real :: p\n    end function perimeter\n    module subroutine draw(n)\n      integer :: n\n    end subroutine draw\n  end interface\nend module geo\n"),
}
SESSION_SUB = ("submodule (geo) geo_impl\n  implicit none\ncontains\n  module procedure perimeter\n    p = 2.0 * r\n  end procedure perimeter\n"
               "  module procedure draw\n  end procedure draw\n  subroutine helper()\n  end subroutine helper\nend submodule geo_impl\n")


def _outline(s, path):
    r = s.result("textDocument/documentSymbol", {"textDocument": Server.tdpp(path, 0, 0)["textDocument"]})
    if not isinstance(r, list):
        return r
    return sorted((x["name"].lower(), x["kind"], (x.get("containerName") or "").lower(), x["location"]["range"]["start"]["line"],
                   x["location"]["range"]["end"]["line"]) for x in r)


def session_jobs():
    for first in ("without", "with"):
        for ask_before in (False, True):
            for delivery in ("change_save", "disk_open", "disk_open_close"):
                for sub_first in (False, True):
                    yield (first, ask_before, delivery, sub_first)


def session_case(job, acc: Acc):
    """The outline is a function of the files, not of what was asked before: the interface of a separate module
    procedure arrives in (or leaves) the parent module's file while the submodule's file stays as it is; the
    submodule's outline (asked before the change or not) must be the one a fresh server gives."""
    first, ask_before, delivery, sub_first = job
    second = "with" if first == "without" else "without"
    sc = worker_scratch("c04")
    sc.wipe()
    root = os.path.realpath(os.path.join(sc.path, "w"))
    os.makedirs(root)
    pn, sn = ("z_geo.f90", "a_impl.f90") if sub_first else ("a_geo.f90", "z_impl.f90")
    ppath, spath = os.path.join(root, pn), os.path.join(root, sn)
    with open(ppath, "w") as f:
        f.write(SESSION_PARENT[first])
    with open(spath, "w") as f:
        f.write(SESSION_SUB)
    s = Server([])
    s.initialize(root)
    if ask_before:
        _outline(s, spath)
        _outline(s, ppath)
    if delivery == "change_save":
        s.open(ppath)
        s.change(ppath, [{"text": SESSION_PARENT[second]}])
        with open(ppath, "w") as f:
            f.write(SESSION_PARENT[second])
        s.save(ppath)
    else:
        with open(ppath, "w") as f:
            f.write(SESSION_PARENT[second])
        s.open(ppath)
        if delivery == "disk_open_close":
            s.close(ppath)
    got = {pn: _outline(s, ppath), sn: _outline(s, spath)}
    f2 = Server([])
    f2.initialize(root)
    want = {pn: _outline(f2, ppath), sn: _outline(f2, spath)}
    acc.case(nontrivial_key=job, outcome=(first, len(want[sn]) if isinstance(want[sn], list) else -1))
    for n in (pn, sn):
        if got[n] != want[n]:
            acc.violation(Violation("sessions", {"family": "sessions", "first": first, "asked_before": ask_before, "delivery": delivery, "file": "submodule" if n == sn else "parent",
                                                 "obs": "outline_differs_from_fresh_server"}, {"job": list(job)}, want[n], got[n],
                                    what=f"{job}: outline of {n} differs from a fresh server's: {[x for x in (got[n] or []) if x not in (want[n] or [])][:3]}"))


def main(ctx):
    budget = 3 if ctx.quick else 4
    ctx.rule = (f"all structure trees with <= {budget} nodes (plus all trees with {budget + 1} nodes in one rendering each) (units: module, submodule, program, external subroutine/function; "
                "module children: derived types with components/bindings, named generic and abstract interfaces, module "
                "procedures; procedure/program children: internal procedures and executable constructs nested to depth 2) x 5 "
                "END forms x 3 spacing styles; outline checked against the renderer's source map; workspace/symbol for every "
                "substring (<=3) of every name in 3 letter cases, '' and a non-matching query. Distinct by (tree, form, spacing).")
    ctx.assumptions = ["SymbolKind mapping taken as: program units -> Module(2), procedures -> Function(12), derived types -> "
                       "Class(5), named interfaces -> Interface(11), components -> Variable(13), bindings -> Method(6)",
                       "entries the statement neither demands nor forbids (internal '#' names, members of programs, interface "
                       "bodies, named constructs) are ignored"]
    acc = core.pmap(check_file, jobs(budget), chunk=16, budget_s=120, label="C04")
    ctx.add_family("outline+workspace_symbol", acc, node_budget=budget)
    nacc = core.pmap(check_file, nesting_pairs(), chunk=16, budget_s=120, label="C04/nesting")
    ctx.add_family("nesting_pairs", nacc, what="7 nestable constructs (BLOCK, DO, named DO, label-terminated DO ending in CONTINUE / in a labelled END DO, IF, ASSOCIATE) around each of the 10 "
                   "constructs (optionally followed by a plain DO), in the first of two sibling module procedures, 15 renderings")
    zacc = core.pmap(session_case, list(session_jobs()), chunk=2, budget_s=120, label="C04/sessions")
    ctx.add_family("sessions", zacc, what="module + submodule with `module procedure` implementations in two files; the interfaces arrive in / leave the parent's file "
                   "(3 ways of delivering the change) with the outlines asked before or not, both file orders: outlines equal a fresh server's")
    sacc = core.pmap(collision_case, sorted(_collision_programs()), chunk=1, budget_s=60, label="C04/same_names")
    ctx.add_family("same_names", sacc, what="distinct entities of one file that legally share a name (constructor idiom, generic named "
                   "like its specific, same members in two modules, same component in two types, module procedure and internal procedure)")


def replay(rec):
    c = rec["case"]
    acc = Acc()
    if rec["family"] == "sessions":
        session_case(tuple(c["job"]), acc)
        return [v.to_json("C04") for v in acc.violations] or None
    if rec["family"] == "same_names":
        collision_case(c["program"], acc)
        return [v.to_json("C04") for v in acc.violations] or None
    check_file((eval(c["units"]), c["endform"], c["spacing"]), acc)
    return [v.to_json("C04") for v in acc.violations] or None
