"""C03 — indexing is total and terminates on every document text.

Bounded-exhaustive enumeration through the real LangServer.update_workspace_file
(the place where "Error during parsing" is produced), followed by documentSymbol
and the diagnostics computation on the resulting index:
  fragments  every sequence of <= N lines over a ~90-fragment alphabet of
             statement openers / END forms / directives / broken lines, in four
             file kinds (plain/preprocessed x free/fixed layout)
  prefixes   every line prefix (quick) / character prefix (thorough) of every
             sample source of the repository's test corpus
  mutants    every single-token deletion, line duplication and adjacent line swap
             of the same corpus
A hard watchdog turns non-termination into a violation.
"""
from __future__ import annotations

import itertools
import os
import re
import traceback

from .. import core
from ..core import Acc, Violation
from ..driver import Scratch, server_on, worker_scratch

LEVEL = "exploration"

FRAGMENTS = [
    # program units and END forms
    "module m", "submodule (m) sm", "submodule (m:sm) sm2", "program p", "subroutine s(a, b)", "function f(x) result(r)",
    "integer function g(x)", "pure elemental real(8) function h(x)", "module procedure mp", "module subroutine ms(a)",
    "block data bd", "end", "end module", "end module m", "endsubroutine", "end subroutine s", "end function", "end program p",
    "end submodule", "end type", "end type t", "end interface", "end block", "end do", "enddo", "end if", "endif",
    "end select", "end associate", "end where", "end enum", "end procedure",
    # specification part
    "contains", "implicit none", "implicit real(a-h)", "private", "public :: a", "private :: b", "use m", "use m, only: a",
    "use, intrinsic :: iso_c_binding, only: q => c_int", "import", "import :: a", "import, none", "include 'inc.f90'",
    "integer :: a", "integer a, b", "real(8), dimension(:), allocatable :: b", "character(len=*), intent(in) :: c",
    "type(t) :: v", "class(t), pointer :: w => null()", "integer, pointer :: a => a", "procedure(foo) :: bar",
    "procedure(foo), pointer :: pp => null()", "procedure :: tb => impl", "procedure, nopass :: tb2", "generic :: g => a, b",
    "generic, public :: operator(+) => add", "final :: fin", "type :: t", "type, extends(t) :: t2", "type, abstract :: ta",
    "interface", "interface gi", "abstract interface", "interface operator(+)", "enum, bind(c)", "enumerator :: e1 = 1",
    "integer, parameter :: k = selected_real_kind(6, 37)", "external ext", "real, external :: ext2",
    # executable constructs
    "block", "do i = 1, 10", "do 10 i = 1, 10", "10 continue", "outer: do while (a < b)", "if (a > b) then", "else if (a) then",
    "else", "if (a) b = 1", "select case (a)", "case (1)", "case default", "select type (x => y)", "type is (t)", "class is (t)",
    "class default", "associate (q => a, r => b)", "associate (q => q)", "where (a > 0)", "where (a > 0) a = 1", "forall (i=1:n)",
    "a = b + c(1)", "call s(a, b)", "z = F(1) + A", "w = P // G(1, 2)", "x = a%b%c(1)%d",
    # broken / partial lines
    "integer ::", "integer, dimension(", "real(kind=", "character(len=", "call s(a, &", "&  b)", "x = 'unclosed", 'y = "unclosed',
    "x = (a + (b", ";", "a = 1; b = 2", "associate (, q => a)", "associate (q => a,)", "associate ()", "contains; subroutine q", "type(", "class(t", "use", "module", "subroutine", "function",
    "interface ;", "procedure(", "generic ::", "end ;", "=>", "%", "::", "a%", ",", "(", ")", "&", "! comment", "!> doc", "!! doc",
    "!< doc", "",
    # preprocessor
    "#define A 1", "#define B", "#define F(x) x+1", "#define G(x, y) x\\y", "#define M 1 \\", "#define P 'c:\\dir'", "#undef A",
    "#ifdef A", "#ifndef A", "#if defined(A) && !defined(B)", "#if (defined A || defined B)", "#if A > 1", "#if", "#elif B",
    "#elif defined(", "#else", "#endif", "#include \"inc.h\"", "#include", "#", "#define", "# define S(", "#if A ==",
]


def fixed_form(frag: str) -> str:
    if frag.startswith("#") or frag == "":
        return frag
    if frag.startswith("!"):
        return "c" + frag[1:]
    if frag.startswith("&"):
        return "     &" + frag[1:]
    m = re.match(r"(\d+) (.*)", frag)
    if m:
        return f"{m.group(1):<6}{m.group(2)}"
    return "      " + frag


KINDS = [("k.f90", False), ("k.F90", False), ("k.f", True), ("k.F", True)]


# ----------------------------------------------------------------- execution
_CTX = {}


def _server():
    s = _CTX.get("srv")
    if s is None:
        sc = worker_scratch("c03")
        sc.wipe()
        sc.write("inc.f90", "integer :: from_inc\n")
        sc.write("inc.h", "#define FROM_H 2\n")
        s = server_on(sc.path)
        _CTX["srv"] = s
        _CTX["root"] = sc.path
        _CTX["base_tree"] = dict(s.srv.obj_tree)
        _CTX["base_ws"] = dict(s.srv.workspace)
    return s


def _site(tb):
    """Innermost fortls frame of a traceback: 'file.py:function'."""
    site = "?"
    for fr in traceback.extract_tb(tb):
        if "/fortls/" in fr.filename:
            site = f"{os.path.basename(fr.filename)}:{fr.name}"
    return site


def index_text(name, text):
    """Index `text` as the content of file `name` through the real server code.
    Returns [(stage, exc_type, site, message)] — empty iff the property holds."""
    from fortls.jsonrpc import path_to_uri
    from fortls.parsers.internal.parser import FortranFile

    s = _server()
    srv = s.srv
    srv.workspace = dict(_CTX["base_ws"])
    srv.obj_tree = dict(_CTX["base_tree"])
    srv.pp_defs = {}
    srv.include_dirs = set()
    path = os.path.join(_CTX["root"], name)
    f = FortranFile(path, srv.pp_suffixes)
    f.apply_change({"text": text})
    srv.workspace[path] = f
    bad = []
    on_disk = f'#include "{name}"' in text   # a text that includes itself: the included copy is read from disk
    if on_disk:
        with open(path, "w") as fh:
            fh.write(text)
    try:
        ok, err = srv.update_workspace_file(path, update_links=True)
    except Exception as e:  # noqa  (escapes the handler: the update is abandoned half-way)
        return [("update", type(e).__name__, _site(e.__traceback__), str(e)[:120])]
    finally:
        if on_disk:
            os.unlink(path)
    if err is not None or not ok:
        # re-run the parser alone to learn where it raised
        try:
            f2 = FortranFile(path, srv.pp_suffixes)
            f2.apply_change({"text": text})
            f2.parse(pp_defs={}, include_dirs=set())
            bad.append(("parse", "unknown", "?", str(err)))
        except Exception as e:  # noqa
            bad.append(("parse", type(e).__name__, _site(e.__traceback__), str(e)[:120]))
        return bad
    if f.ast is None:
        bad.append(("parse", "no_ast", "?", ""))
        return bad
    uri = path_to_uri(path)
    try:
        srv.serve_document_symbols({"params": {"textDocument": {"uri": uri}}})
    except Exception as e:  # noqa
        bad.append(("symbols", type(e).__name__, _site(e.__traceback__), str(e)[:120]))
    try:
        f.check_file(srv.obj_tree, max_line_length=-1, max_comment_line_length=-1)
    except Exception as e:  # noqa
        bad.append(("diagnostics", type(e).__name__, _site(e.__traceback__), str(e)[:120]))
    return bad


def check_text(family, name, text, acc: Acc, desc):
    bad = index_text(name, text)
    f = _server().srv.workspace.get(os.path.join(_CTX["root"], name))
    shape = (len(f.ast.scope_list), len(f.ast.variable_list)) if f is not None and f.ast is not None else None
    acc.case(nontrivial_key=(name, text) if text.strip() else None,
             outcome=(tuple((b[0], b[1], b[2]) for b in bad), shape))
    for stage, exc, site, msg in bad:
        acc.violation(Violation(
            family, {"family": family, "stage": stage, "exc": exc, "site": site},
            {"name": name, "text": text, "desc": desc}, "indexed without raising", f"{exc} at {site}: {msg}",
            what=f"{name} {desc}"))


def on_timeout(case, acc: Acc):
    fam, name, text, desc = case[:4] if isinstance(case, tuple) else ("?", "?", repr(case), "")
    acc.violation(Violation(fam, {"family": fam, "stage": "timeout", "exc": "timeout", "site": "?"},
                            {"name": name, "text": text, "desc": desc}, "terminates quickly", "exceeded time budget"))


def run_case(case, acc: Acc):
    fam, name, text, desc = case
    check_text(fam, name, text, acc, desc)
    if len(acc.samples) < 2:
        acc.sample({"family": fam, "file": name, "text": text[:200]})


# ------------------------------------------------------------------ families
def fragment_cases(maxlen):
    for n in range(1, maxlen + 1):
        for combo in itertools.product(range(len(FRAGMENTS)), repeat=n):
            for name, fixed in KINDS:
                lines = [fixed_form(FRAGMENTS[i]) if fixed else FRAGMENTS[i] for i in combo]
                yield ("fragments", name, "\n".join(lines) + "\n", f"fragments={list(combo)}")


PP_LINES = [
    "#define A 1", "#define A", "#define A(x) (x)", "#define A(x, y) x+y", "#undef A", "#define B A", "#define A 1 \\",
    "y = A", "y = A(1)", "y = A(1, 2) + B", "#ifdef A", "#if A", "#if A(1) > 0", "#else", "#endif", "integer :: A",
    "#include \"k.F90\"",   # the file includes itself (twice in one file: the work must not double per level)
]


def pp_sequence_cases(maxlen):
    """Longer sequences over a small preprocessor alphabet: definitions of one name
    in every macro kind interleaved with uses, #undef and conditionals."""
    for n in range(1, maxlen + 1):
        for combo in itertools.product(range(len(PP_LINES)), repeat=n):
            yield ("pp_sequences", "k.F90", "\n".join(PP_LINES[i] for i in combo) + "\n", f"pp_lines={list(combo)}")


CORE = ["module m", "program p", "subroutine s(a, b)", "function f(x) result(r)", "end", "end module", "end subroutine s", "end program p",
        "end type", "end interface", "end do", "end if", "contains", "implicit none", "private", "use m", "integer :: a", "integer a, b",
        "type :: t", "type(t) :: v", "interface", "interface gi", "block", "do i = 1, 10", "if (a > b) then", "else", "select case (a)",
        "case (1)", "associate (q => a)", "a = b + c(1)", "call s(a, b)", "procedure(foo) :: bar", "module procedure mp", "include 'inc.f90'",
        "a = 1; b = 2", "! comment", "!> doc", ""]


def core3_cases():
    """All 3-line sequences over a core alphabet of statement openers / ENDs / declarations (quick tier:
    defects that need a header-less scope, its END and something after it)."""
    for combo in itertools.product(range(len(CORE)), repeat=3):
        for name, fixed in (("k.f90", False), ("k.F", True)):
            lines = [fixed_form(CORE[i]) if fixed else CORE[i] for i in combo]
            yield ("core3", name, "\n".join(lines) + "\n", f"core={list(combo)}")


# Long, realistic statements as an editor meets them while they are being typed: every character prefix, and the
# complete statement with one character replaced by a delimiter.  (Pattern matching whose cost explodes on a
# near-match only shows on long identifiers and unfinished lists; the other families use short ones.)
LONG = [
    "subroutine update_boundary(density, velocity, pressure, energy, gamma_gas, time_step)",
    "pure function interpolate_linear(x_values, y_values, x_query, extrapolate) result(y_query)",
    "integer function count_matching_elements(array_of_values, lower_bound_value, upper_bound_value)",
    "real(kind=8), dimension(:, :), allocatable, intent(inout) :: temperature_field, pressure_field",
    "character(len=*), parameter :: message_text = 'a fairly long message (with parens) and, commas'",
    "call update_boundary(density(1:n), velocity(:, 1), pressure, energy, gamma_gas, time_step=0.5d0)",
    "use numerical_constants, only: pi_value => pi, euler_number, golden_ratio, speed_of_light",
    "type, extends(base_container), public :: derived_container_with_long_name",
    "procedure, pass(self), public :: compute_something_expensive => compute_something_impl",
    "generic, public :: operator(+) => add_containers, add_container_scalar, add_scalar_container",
    "module procedure integrate_trapezoidal_rule, integrate_simpson_rule, integrate_gauss_rule",
    "if (temperature_field(i, j) > threshold_value .and. pressure_field(i, j) < limit_value) then",
    "associate (current_cell => mesh%cells(order(k)), neighbour_cell => mesh%cells(order(k + 1)))",
    "where (temperature_field > threshold_value) pressure_field = pressure_field * scaling_factor",
    "submodule (parent_module_name:intermediate_submodule) child_submodule_name",
    "select type (polymorphic_argument_object_name)",
    "class is (derived_container_with_long_name)",
    "interface operator(.cross_product_of_vectors.)",
    "enumerator :: colour_red = 1, colour_green = 2, colour_blue = 4, colour_alpha = 8",
    "#define APPLY_TWICE(function_name, argument_value) function_name(function_name(argument_value))",
    "#if defined(HAVE_LONG_FEATURE_NAME) && (FEATURE_LEVEL_VALUE > 2 || defined(OTHER_FEATURE_NAME))",
    # uses of function-like macros (the first line defines them)
    "#define CHECK_STATUS(status_value, message_text) call check(status_value, message_text)\n"
    "CHECK_STATUS(allocation_status_of_the_work_array_buffer, 'could not allocate (work)')",
    "#define WRAP_CALL(procedure_name) procedure_name , wrap_/**/procedure_name\n"
    "generic, public :: assignment_operator_set => WRAP_CALL(assign_from_another_container_object)",
]
SUBST = [".", "(", ")", "'", "%", "=", ",", "&"]


def long_cases(full):
    for k, entry in enumerate(LONG):
        prelude, _, stmt = entry.rpartition("\n")
        variants = [(stmt[:i], f"long[{k}] prefix {i}") for i in range(1, len(stmt) + 1)]
        for ch in (SUBST if full else SUBST[:4]):
            variants += [(stmt[:i] + ch + stmt[i + 1:], f"long[{k}] char {i} -> {ch!r}") for i in range(len(stmt)) if stmt[i] != ch]
        for text, desc in variants:
            for name, fixed in (KINDS if full else (("k.f90", False), ("k.F90", False), ("k.F", True))):
                if (text.startswith("#") or prelude) and not name.endswith(("F90", "F")):
                    continue
                body = text if (text.startswith("#") or not fixed) else fixed_form(text)
                if prelude:
                    body = prelude + "\n" + body
                yield ("long_statements", name, body + "\n", desc)
                yield ("long_statements", name, ("module m\ncontains\n" if not fixed else fixed_form("module m") + "\n" + fixed_form("contains") + "\n")
                       + body + "\n" + ("end module m\n" if not fixed else fixed_form("end module m") + "\n"), desc + " in module")


def corpus():
    """[(relative name, text)] of the repository's sample sources."""
    base = os.path.join(core.REPO, "test", "test_source")
    out = []
    for dp, dn, fn in os.walk(base):
        for f in sorted(fn):
            if re.search(r"\.(f|f90|f08|F90|F|h|inc)$", f):
                p = os.path.join(dp, f)
                with open(p, encoding="utf-8", errors="replace") as fh:
                    out.append((os.path.relpath(p, base), fh.read()))
    out.sort()
    return out


def _kname(rel):
    # keep the suffix (decides preprocessing), flatten the directory
    return "c_" + rel.replace("/", "_")


def prefix_cases(by_char):
    for rel, text in corpus():
        name = _kname(rel)
        if by_char:
            for i in range(len(text) + 1):
                yield ("prefixes", name, text[:i], f"{rel}[:{i}]")
        else:
            lines = text.split("\n")
            for i in range(len(lines) + 1):
                yield ("prefixes", name, "\n".join(lines[:i]), f"{rel} first {i} lines")
                # and the cut in the middle of line i (what typing looks like)
                if i < len(lines) and len(lines[i]) > 1:
                    yield ("prefixes", name, "\n".join(lines[:i] + [lines[i][: len(lines[i]) // 2]]), f"{rel} {i} lines + half")


TOKEN = re.compile(r"[A-Za-z_]\w*|\d+|\S")


def mutant_cases(token_level):
    for rel, text in corpus():
        name = _kname(rel)
        lines = text.split("\n")
        for i in range(len(lines)):
            yield ("mutants", name, "\n".join(lines[:i] + lines[i + 1:]), f"{rel} delete line {i}")
            yield ("mutants", name, "\n".join(lines[:i + 1] + lines[i:]), f"{rel} duplicate line {i}")
            if i + 1 < len(lines):
                yield ("mutants", name, "\n".join(lines[:i] + [lines[i + 1], lines[i]] + lines[i + 2:]), f"{rel} swap lines {i},{i+1}")
            if token_level:
                for m in TOKEN.finditer(lines[i]):
                    new = lines[i][: m.start()] + lines[i][m.end():]
                    yield ("mutants", name, "\n".join(lines[:i] + [new] + lines[i + 1:]), f"{rel} line {i} delete token {m.group(0)!r}@{m.start()}")


def main(ctx):
    q = ctx.quick
    ctx.rule = ("fragments: all sequences of <=N lines over the fragment alphabet x 4 file kinds; prefixes: every line/char "
                "prefix of every corpus source; mutants: every line deletion/duplication/swap (and token deletion) of the "
                "corpus. Each text is indexed by the real update_workspace_file, then documentSymbol and check_file run on "
                "the result. long_statements: every character prefix of 21 long realistic statements and every single-character "
                "replacement by a delimiter, alone and inside a module. Non-trivial = non-blank text; distinct by (file kind, text).")
    ctx.assumptions = ["time budget 10 s per text (measured typical: < 5 ms)",
                       "one long-lived server per worker whose workspace / obj_tree / pp_defs are reset before each text"]
    fams = [
        ("fragments", fragment_cases(2 if q else 3), 256),
        ("pp_sequences", pp_sequence_cases(4 if q else 5), 256),
        ("core3", core3_cases(), 256),
        ("long_statements", long_cases(not q), 64),
        ("prefixes", prefix_cases(by_char=not q), 64),
        ("mutants", mutant_cases(token_level=not q), 64),
    ]
    for name, gen, chunk in fams:
        if ctx.only and name not in ctx.only:
            continue
        acc = core.pmap(run_case, gen, chunk=chunk, budget_s=10, on_timeout=on_timeout, label=f"C03/{name}")
        ctx.add_family(name, acc)
    ctx.coverage_extra["bounds"] = {"fragment_lines": 2 if q else 3, "fragments": len(FRAGMENTS), "kinds": 4,
                                    "prefix_granularity": "line (+half line)" if q else "character",
                                    "mutants": "line level" if q else "line and token level"}


def replay(rec):
    c = rec["case"]
    bad = index_text(c["name"], c["text"])
    return [{"stage": b[0], "exc": b[1], "site": b[2], "message": b[3]} for b in bad] or None
