"""C06 — references, documentHighlight and rename cover exactly the occurrences.

Bounded-exhaustive enumeration of generated programs: every sequence of <= N
statements over an occurrence-pattern alphabet (the same name several times
separated by one operator character, in CALL argument lists, after ';', across a
continuation line, in another letter case, inside comments and character literals,
as a substring of longer identifiers) x 5 scope shapes (plain local; the same
spelling declared in an inner scope; the same spelling in another module used by
another program; the same spelling as a type component) x names (i, ii-like, with
'_', with '$').  The builder records which entity every occurrence is bound to.
For every entity and every occurrence as the request position: references and
documentHighlight must equal the entity's occurrence ranges; rename must edit
exactly those ranges, and after applying the edits to the text and re-indexing a
fresh server every occurrence must resolve to the renamed declaration.

Entities spread over several files (ACROSS_FILES): a procedure declared by an interface body in a module and used from
another file; a separate module procedure (interface body in the module, implementation in a submodule file, callers in a
third file); a dummy argument of a separate module procedure used in the `module procedure` implementation in another
file, next to a namesake dummy of another procedure.  Each x subroutine/function x one shape-specific dimension x file
order; asked from every occurrence in every file (references, documentHighlight, rename).
"""
from __future__ import annotations

import itertools
import os

from .. import core
from ..core import Acc, Violation
from ..driver import Server, worker_scratch
from ..fbuild import D, U, Workspace

LEVEL = "exploration"

NAMES = ["i", "xv", "x_1", "a$b"]
NEW_NAMES = ["zz", "q1", "a_much_longer_name", "w"]
PATTERNS = ["spaced", "tight", "square", "ifstmt", "callargs", "semicolon", "continuation", "uppercase", "comment", "literal", "substring", "funcarg",
            "dotted", "continuation_amp", "bang_literal"]


# occurrences of the second entity are neither required in nor forbidden from the answers for the first
MAY_INCLUDE = {"BIND": ("CBIND",), "CBIND": ("BIND",)}


def emit(f, ind, pat, n, e):
    """Append the statements of pattern `pat` for name n bound to entity e."""
    if pat == "spaced":
        f.add(ind, U(n, e), " = ", U(n, e), " + 1")
    elif pat == "tight":
        f.add(ind, U(n, e), "=", U(n, e), "+1")
    elif pat == "square":
        f.add(ind, U(n, e), "=", U(n, e), "*", U(n, e))
    elif pat == "ifstmt":
        f.add(ind, "if (", U(n, e), ">0) ", U(n, e), "=", U(n, e), "-1")
    elif pat == "callargs":
        f.add(ind, "call helper(", U(n, e), ",", U(n, e), ")")
    elif pat == "semicolon":
        f.add(ind, U(n, e), " = 1; ", U(n, e), " = ", U(n, e), " + ", U(n, e))
    elif pat == "continuation":
        f.add(ind, U(n, e), " = ", U(n, e), " + &")
        f.add(ind, "    ", U(n, e))
    elif pat == "continuation_amp":
        f.add(ind, U(n, e), " = ", U(n, e), " + &")
        f.add(ind, "  & ", U(n, e), "*2 + ", U(n, e))
    elif pat == "bang_literal":
        # a '!' inside a character literal does not start a comment: the occurrences after it count
        f.add(ind, "text = 'stop!'; ", U(n, e), " = ", U(n, e), " + 1")
        f.add(ind, "print *, \"a!b\", ", U(n, e), " ! ", n, " in a real comment")
    elif pat == "uppercase":
        f.add(ind, U(n.upper(), e), " = ", U(n, e), " - ", U(n.capitalize(), e))
    elif pat == "comment":
        f.add(ind, "other = 2 ! ", n, " = ", n, " + 1 is only a comment")
        f.add(ind, "! ", n)
    elif pat == "literal":
        f.add(ind, "text = '", n, "' // \"", n, " and ''", n, "''\"")
    elif pat == "substring":
        f.add(ind, n, "long = ", n, "long + pre", n, " + ", U(n, e))
    elif pat == "dotted":
        # operands glued to dotted operators
        f.add(ind, "if (", U(n, e), ".gt.other.or.other.eq.", U(n, e), ".and..not.(", U(n, e), ".lt.0)) ", U(n, e), " = 0")
    elif pat == "funcarg":
        f.add(ind, "other = twice(", U(n, e), ") + twice(", U(n, e), "+", U(n, e), ")")


def prologue(f, ind, n):
    f.add(ind, "integer :: other, ", n, "long, pre", n)
    f.add(ind, "character(len=40) :: text")


HELPERS = ("subroutine helper(p, q)\n  integer :: p, q\nend subroutine helper\n"
           "integer function twice(p)\n  integer :: p\n  twice = 2 * p\nend function twice\n")


# Shapes whose entity lives in several files.  A shape is written "<base>+<variant>,<variant>..."; the variants are the
# dimensions of the family:  fun (function instead of subroutine), useall (`use m` instead of `use m, only: name`), long
# (implementation `module subroutine name(k)` instead of `module procedure name`), second (the dummy is the second
# argument), zfile (the other files sort after main.f90 instead of before it).
ACROSS_FILES = {
    "interface_body_across_files": [("fun",), ("useall",), ("zfile",)],
    "module_procedure_interface_across_files": [("fun",), ("long",), ("zfile",)],
    "separate_procedure_dummy_across_files": [("fun",), ("second",), ("zfile",)],
}


def across_shapes():
    for base, dims in ACROSS_FILES.items():
        for bits in itertools.product((False, True), repeat=len(dims)):
            var = [d[0] for d, b in zip(dims, bits) if b]
            yield base + ("+" + ",".join(var) if var else "")


def build(shape, n, pats):
    ws = Workspace()
    f = ws.file("main.f90")
    shape, _, var = shape.partition("+")
    var = set(var.split(",")) if var else set()
    fun = "fun" in var
    kind = "function" if fun else "subroutine"
    pre = "z_" if "zfile" in var else "a_"
    if shape == "local":
        f.add("subroutine work()")
        f.add("  implicit none")
        f.add("  integer, external :: twice")
        f.add("  integer :: ", D(n, "V"))
        prologue(f, "  ", n)
        for p in pats:
            emit(f, "  ", p, n, "V")
        f.add("end subroutine work")
    elif shape == "shadow":
        f.add("module shadow_mod")
        f.add("  implicit none")
        f.add("  integer :: ", D(n, "OUTER"))
        f.add("contains")
        f.add("  subroutine work()")
        f.add("    integer, external :: twice")
        prologue(f, "    ", n)
        for p in pats:
            emit(f, "    ", p, n, "OUTER")
        f.add("    block")
        f.add("      integer :: ", D(n, "INNER"))
        for p in pats[:1]:
            emit(f, "      ", p, n, "INNER")
        f.add("    end block")
        f.add("    call deeper(", U(n, "OUTER"), ")")
        f.add("  end subroutine work")
        f.add("  subroutine deeper(", U(n, "ARG"), ")")
        f.add("    integer :: ", D(n, "ARG"))
        f.add("    ", U(n, "ARG"), " = 0")
        f.add("  end subroutine deeper")
        f.add("end module shadow_mod")
    elif shape == "othermodule":
        f.add("module first_mod")
        f.add("  implicit none")
        f.add("  integer :: ", D(n, "FIRST"))
        f.add("contains")
        f.add("  subroutine work()")
        f.add("    integer, external :: twice")
        prologue(f, "    ", n)
        for p in pats:
            emit(f, "    ", p, n, "FIRST")
        f.add("  end subroutine work")
        f.add("end module first_mod")
        g = ws.file("second.f90")
        g.add("module second_mod")
        g.add("  implicit none")
        g.add("  integer :: ", D(n, "SECOND"))
        g.add("end module second_mod")
        g.add("subroutine uses_second()")
        g.add("  use second_mod")
        g.add("  ", U(n, "SECOND"), " = ", U(n, "SECOND"), " + 1")
        g.add("end subroutine uses_second")
        h = ws.file("third.f90")
        h.add("subroutine uses_first()")
        h.add("  use first_mod, only: ", U(n, "FIRST"))
        h.add("  ", U(n, "FIRST"), "=", U(n, "FIRST"), "*2")
        h.add("end subroutine uses_first")
    elif shape == "component":
        f.add("module comp_mod")
        f.add("  implicit none")
        f.add("  type :: holder")
        f.add("    integer :: ", D(n, "COMP"))
        f.add("  end type holder")
        f.add("contains")
        f.add("  subroutine work(h)")
        f.add("    type(holder) :: h")
        f.add("    integer, external :: twice")
        f.add("    integer :: ", D(n, "VAR"))
        prologue(f, "    ", n)
        for p in pats:
            emit(f, "    ", p, n, "VAR")
        f.add("    h%", U(n, "COMP"), " = ", U(n, "VAR"), " + h%", U(n, "COMP"))
        f.add("    h%", U(n, "COMP"), "=h%", U(n, "COMP"), "*h%", U(n, "COMP"))
        f.add("  end subroutine work")
        f.add("end module comp_mod")
    elif shape == "procedure":
        # the entity is a module procedure: declared once, called in several statement shapes, imported by name elsewhere
        f.add("module proc_mod")
        f.add("  implicit none")
        f.add("  integer :: counter")
        f.add("contains")
        f.add("  subroutine ", D(n, "PROC"), "(k)")
        f.add("    integer :: k")
        f.add("    k = k + 1")
        f.add("  end subroutine ", U(n, "PROC"))
        f.add("  subroutine work()")
        f.add("    integer :: other")
        f.add("    character(len=40) :: text")
        f.add("    other = 0")
        for p in pats:
            if p in ("comment", "literal"):
                emit(f, "    ", p, n, "PROC")
            elif p in ("semicolon", "ifstmt"):
                f.add("    if (other > 0) call ", U(n, "PROC"), "(other); call ", U(n, "PROC"), "(counter)")
            elif p in ("continuation",):
                f.add("    call &")
                f.add("      ", U(n, "PROC"), "(other)")
            elif p == "uppercase":
                f.add("    CALL ", U(n.upper(), "PROC"), "(other)")
            else:
                f.add("    call ", U(n, "PROC"), "(other)")
        f.add("  end subroutine work")
        f.add("end module proc_mod")
        g = ws.file("caller.f90")
        g.add("subroutine caller()")
        g.add("  use proc_mod, only: ", U(n, "PROC"))
        g.add("  integer :: m")
        g.add("  m = 1")
        g.add("  call ", U(n, "PROC"), "(m)")
        g.add("end subroutine caller")
    elif shape == "binding_same_name":
        # a type-bound procedure whose binding is spelled like its implementation: two entities, one spelling,
        # both on the binding line
        f.add("module bind_mod")
        f.add("  implicit none")
        f.add("  type :: shape_t")
        f.add("    real :: r")
        f.add("  contains")
        f.add("    procedure :: ", D(n, "BIND"), " => ", U(n, "PROC"))
        f.add("  end type shape_t")
        f.add("contains")
        f.add("  subroutine ", D(n, "PROC"), "(self)")
        f.add("    class(shape_t) :: self")
        f.add("    self%r = 1.0")
        f.add("  end subroutine ", U(n, "PROC"))
        f.add("  subroutine work(obj)")
        f.add("    type(shape_t) :: obj")
        f.add("    character(len=40) :: text")
        f.add("    integer :: other")
        for p in pats:
            if p in ("comment", "literal"):
                emit(f, "    ", p, n, "PROC")
        f.add("    call obj%", U(n, "BIND"), "()")
        f.add("    call ", U(n, "PROC"), "(obj)")
        f.add("  end subroutine work")
        f.add("end module bind_mod")
    elif shape == "override_and_namesake":
        # a binding, the binding that overrides it in an extension (whether a search from the one also lists the other is
        # left open: MAY_INCLUDE) and an unrelated type with a binding of the same spelling, all asked in one session
        f.add("module over_mod")
        f.add("  implicit none")
        f.add("  type :: base_t")
        f.add("  contains")
        f.add("    procedure :: ", D(n, "BIND"), " => base_impl")
        f.add("  end type base_t")
        f.add("  type, extends(base_t) :: child_t")
        f.add("  contains")
        f.add("    procedure :: ", D(n, "CBIND"), " => child_impl")
        f.add("  end type child_t")
        f.add("  type :: other_t")
        f.add("  contains")
        f.add("    procedure :: ", D(n, "OBIND"), " => other_impl")
        f.add("  end type other_t")
        f.add("contains")
        f.add("  subroutine base_impl(self)")
        f.add("    class(base_t) :: self")
        f.add("  end subroutine base_impl")
        f.add("  subroutine child_impl(self)")
        f.add("    class(child_t) :: self")
        f.add("  end subroutine child_impl")
        f.add("  subroutine other_impl(self)")
        f.add("    class(other_t) :: self")
        f.add("  end subroutine other_impl")
        f.add("  subroutine work(b, c, o)")
        f.add("    type(base_t) :: b")
        f.add("    type(child_t) :: c")
        f.add("    type(other_t) :: o")
        f.add("    character(len=40) :: text")
        f.add("    integer :: other")
        for p in pats:
            if p in ("comment", "literal"):
                emit(f, "    ", p, n, "BIND")
        f.add("    call b%", U(n, "BIND"), "()")
        f.add("    call c%", U(n, "CBIND"), "()")
        f.add("    call o%", U(n, "OBIND"), "()")
        f.add("  end subroutine work")
        f.add("end module over_mod")
    elif shape == "private_in_submodule":
        # a PRIVATE module entity is still visible in the module's submodules, which may live in other files
        f.add("module priv_mod")
        f.add("  implicit none")
        f.add("  private")
        f.add("  integer :: ", D(n, "PRIV"))
        f.add("  public :: bump")
        f.add("  interface")
        f.add("    module subroutine bump(k)")
        f.add("      integer :: k")
        f.add("    end subroutine bump")
        f.add("  end interface")
        f.add("contains")
        f.add("  subroutine reset()")
        f.add("    character(len=40) :: text")
        f.add("    integer :: other")
        for p in pats:
            if p in ("comment", "literal"):
                emit(f, "    ", p, n, "PRIV")
        f.add("    ", U(n, "PRIV"), " = 0")
        f.add("  end subroutine reset")
        f.add("end module priv_mod")
        g = ws.file("priv_impl.f90")
        g.add("submodule (priv_mod) priv_impl")
        g.add("  implicit none")
        g.add("contains")
        g.add("  module subroutine bump(k)")
        g.add("    integer :: k")
        g.add("    ", U(n, "PRIV"), " = ", U(n, "PRIV"), " + k")
        g.add("  end subroutine bump")
        g.add("end submodule priv_impl")
    elif shape == "interface_body":
        # the entity is an external function declared by an interface body: its uses lie outside the interface block
        # (program body, internal procedure), the block only holds the declaration
        f.add("program iface_prog")
        f.add("  implicit none")
        f.add("  interface")
        f.add("    function ", D(n, "EXT"), "(a) result(r)")
        f.add("      integer :: a, r")
        f.add("    end function ", U(n, "EXT"))
        f.add("  end interface")
        f.add("  integer :: other")
        f.add("  character(len=40) :: text")
        f.add("  other = ", U(n, "EXT"), "(1)")
        for p in pats:
            if p in ("comment", "literal"):
                emit(f, "  ", p, n, "EXT")
        f.add("  other = ", U(n, "EXT"), "(other) + ", U(n.upper(), "EXT"), "(2)")
        f.add("contains")
        f.add("  integer function inner(z)")
        f.add("    integer :: z")
        f.add("    inner = ", U(n, "EXT"), "(z)")
        f.add("  end function inner")
        f.add("end program iface_prog")
    elif shape == "abstract_interface":
        # the entity is the name of an abstract interface body, used as procedure(name) in declarations elsewhere
        f.add("module abs_mod")
        f.add("  implicit none")
        f.add("  abstract interface")
        f.add("    subroutine ", D(n, "ABS"), "(a)")
        f.add("      integer :: a")
        f.add("    end subroutine ", U(n, "ABS"))
        f.add("  end interface")
        f.add("  procedure(", U(n, "ABS"), "), pointer :: ptr_one")
        f.add("  character(len=40) :: text")
        f.add("  integer :: other")
        f.add("contains")
        f.add("  subroutine work(cb)")
        f.add("    procedure(", U(n, "ABS"), ") :: cb")
        f.add("    procedure(", U(n.upper(), "ABS"), "), pointer :: ptr_two")
        for p in pats:
            if p in ("comment", "literal"):
                emit(f, "    ", p, n, "ABS")
        f.add("    call cb(1)")
        f.add("  end subroutine work")
        f.add("end module abs_mod")
    elif shape == "interface_body_across_files":
        # a module declares an external procedure by an interface body; the procedure is imported and invoked in another
        # file: one entity, occurrences in both files
        f.add("module ext_mod")
        f.add("  implicit none")
        f.add("  interface")
        f.add("    ", "integer " if fun else "", kind, " ", D(n, "EXT"), "(a)")
        f.add("      integer :: a")
        f.add("    end ", kind, " ", U(n, "EXT"))
        f.add("  end interface")
        f.add("contains")
        f.add("  subroutine work()")
        f.add("    integer :: other")
        f.add("    character(len=40) :: text")
        f.add("    other = 0")
        for p in pats:
            if p in ("comment", "literal"):
                emit(f, "    ", p, n, "EXT")
        if fun:
            f.add("    other = ", U(n, "EXT"), "(other) + ", U(n.upper(), "EXT"), "(2)")
        else:
            f.add("    call ", U(n, "EXT"), "(other); CALL ", U(n.upper(), "EXT"), "(other)")
        f.add("  end subroutine work")
        f.add("end module ext_mod")
        g = ws.file(pre + "caller.f90")
        g.add("subroutine caller()")
        if "useall" in var:
            g.add("  use ext_mod")
        else:
            g.add("  use ext_mod, only: ", U(n, "EXT"))
        g.add("  implicit none")
        g.add("  integer :: m")
        g.add("  m = 1")
        if fun:
            g.add("  m = ", U(n, "EXT"), "(3)")
            g.add("  if (", U(n, "EXT"), "(m)>0) m=", U(n, "EXT"), "(m)+1")
        else:
            g.add("  call ", U(n, "EXT"), "(3)")
            g.add("  if (m>0) call ", U(n, "EXT"), "(m)")
        g.add("end subroutine caller")
    elif shape == "module_procedure_interface_across_files":
        # a separate module procedure: the interface body in the module, the implementation in a submodule in a second file
        # (`module procedure name`, or the header repeated), callers in a third file: one entity
        f.add("module sep_mod")
        f.add("  implicit none")
        f.add("  interface")
        f.add("    module ", kind, " ", D(n, "SEP"), "(k)", " result(r)" if fun else "")
        f.add("      integer, intent(in) :: k")
        if fun:
            f.add("      integer :: r")
        f.add("    end ", kind, " ", U(n, "SEP"))
        f.add("  end interface")
        f.add("contains")
        f.add("  subroutine work()")
        f.add("    integer :: other")
        f.add("    character(len=40) :: text")
        f.add("    other = 0")
        for p in pats:
            if p in ("comment", "literal"):
                emit(f, "    ", p, n, "SEP")
        if fun:
            f.add("    other = ", U(n, "SEP"), "(other)")
        else:
            f.add("    call ", U(n, "SEP"), "(other)")
        f.add("  end subroutine work")
        f.add("end module sep_mod")
        g = ws.file(pre + "impl.f90")
        g.add("submodule (sep_mod) sep_impl")
        g.add("  implicit none")
        g.add("contains")
        if "long" in var:
            g.add("  module ", kind, " ", D(n, "SEP"), "(k)", " result(r)" if fun else "")
            g.add("    integer, intent(in) :: k")
            if fun:
                g.add("    integer :: r")
        else:
            g.add("  module procedure ", D(n, "SEP"))  # the header of the implementation declares the procedure as well
        g.add("    r = k + 1" if fun else "    print *, k")
        g.add("  end ", kind if "long" in var else "procedure", " ", U(n, "SEP"))
        g.add("end submodule sep_impl")
        h = ws.file(pre + "caller.f90")
        h.add("subroutine caller()")
        h.add("  use sep_mod, only: ", U(n, "SEP"))
        h.add("  implicit none")
        h.add("  integer :: m")
        h.add("  m = 1")
        if fun:
            h.add("  m = ", U(n, "SEP"), "(m) + ", U(n.upper(), "SEP"), "(2)")
        else:
            h.add("  call ", U(n, "SEP"), "(m); CALL ", U(n.upper(), "SEP"), "(2)")
        h.add("end subroutine caller")
    elif shape == "separate_procedure_dummy_across_files":
        # the entity is a dummy argument of a separate module procedure: declared in the interface body (module file), used
        # in the `module procedure` implementation (submodule, another file).  A second separate procedure has a dummy of
        # the same spelling: another entity, in the same two files
        args = ("w0", U(n, "DUM")) if "second" in var else (U(n, "DUM"), "w0")
        f.add("module dum_mod")
        f.add("  implicit none")
        f.add("  interface")
        f.add("    module ", kind, " bump(", args[0], ", ", args[1], ")", " result(r)" if fun else "")
        f.add("      integer, intent(inout) :: ", D(n, "DUM"))
        f.add("      integer, intent(in) :: w0")
        if fun:
            f.add("      integer :: r")
        f.add("    end ", kind, " bump")
        f.add("    module subroutine namesake(", U(n, "DUM2"), ")")
        f.add("      integer, intent(inout) :: ", D(n, "DUM2"))
        f.add("    end subroutine namesake")
        f.add("  end interface")
        f.add("end module dum_mod")
        g = ws.file(pre + "impl.f90")
        g.add("submodule (dum_mod) dum_impl")
        g.add("  implicit none")
        g.add("contains")
        g.add("  module procedure bump")
        g.add("    integer :: other")
        g.add("    character(len=40) :: text")
        for p in pats:
            if p in ("comment", "literal"):
                emit(g, "    ", p, n, "DUM")
        g.add("    ", U(n, "DUM"), " = ", U(n, "DUM"), " + w0")
        g.add("    if (", U(n.upper(), "DUM"), ">10) ", U(n, "DUM"), "=0")
        if fun:
            g.add("    r = ", U(n, "DUM"))
        g.add("  end procedure bump")
        g.add("  module procedure namesake")
        g.add("    ", U(n, "DUM2"), "=", U(n, "DUM2"), "*2")
        g.add("  end procedure namesake")
        g.add("end submodule dum_impl")
    ws.file("helpers.f90").lines = HELPERS.rstrip("\n").split("\n")
    return ws


def ranges_of(ws, ent):
    return sorted((o.file, o.line, o.col, o.end) for o in ws.occurrences() if o.ent == ent)


def norm_locs(res):
    if not isinstance(res, list):
        return res
    return sorted((os.path.basename(r["uri"]), r["range"]["start"]["line"], r["range"]["start"]["character"], r["range"]["end"]["character"])
                  for r in res if r["range"]["start"]["line"] == r["range"]["end"]["line"])


def run_case(job, acc: Acc):
    shape, n, pats, new_name = job
    ws = build(shape, n, pats)
    sc = worker_scratch("c06")
    sc.wipe()
    root = os.path.realpath(os.path.join(sc.path, "w"))
    os.makedirs(root)
    ws.write(root)
    s = Server([])
    s.initialize(root)
    ents = sorted({o.ent for o in ws.occurrences()})
    case = {"shape": shape, "name": n, "patterns": list(pats), "new_name": new_name, "files": {k: v.text for k, v in ws.files.items()}}
    base, _, var = shape.partition("+")
    across = base in ACROSS_FILES
    tags0 = {"family": "occurrences", "shape": base, "dollar": "$" in n, "patterns": ",".join(pats)}
    if across:
        tags0["variant"] = var
    acc.case(nontrivial_key=(shape, n, pats), outcome=(shape, len(ents)))
    reported = set()

    def report(obs, ent, exp, got, what):
        key = (obs, ent)
        if key in reported:
            return
        reported.add(key)
        missing = sorted(set(map(tuple, exp)) - set(map(tuple, got))) if isinstance(got, list) and isinstance(exp, list) else None
        extra = sorted(set(map(tuple, got)) - set(map(tuple, exp))) if isinstance(got, list) and isinstance(exp, list) else None
        acc.violation(Violation("occurrences", {**tags0, "obs": obs, "entity": ent, "missing": bool(missing), "extra": bool(extra)}, case,
                                exp, got, what=f"{shape}/{n}/{pats} {what}: missing={missing} extra={extra}"))

    for ent in ents:
        want = ranges_of(ws, ent)
        may = {tuple(r) for e2 in MAY_INCLUDE.get(ent, ()) if e2 in ents for r in ranges_of(ws, e2)}
        for o in [x for x in ws.occurrences() if x.ent == ent]:
            path = os.path.join(root, o.file)
            pos = Server.tdpp(path, o.line, (o.col + o.end) // 2)
            refs = norm_locs(s.result("textDocument/references", {**pos, "context": {"includeDeclaration": True}}))
            acc.count("requests")
            if isinstance(refs, list) and may:
                refs_cmp = [r for r in refs if tuple(r) not in may]
            else:
                refs_cmp = refs
            if refs_cmp != want:
                report("references", ent, want, refs, f"references from {o.file}:{o.line}:{o.col}")
            hl = norm_locs(s.result("textDocument/documentHighlight", pos))
            if hl != refs:
                report("highlight_differs_from_references", ent, refs, hl, f"documentHighlight from {o.file}:{o.line}:{o.col}")
        # rename from the declaration and from the last occurrence (entities spread over several files: from every occurrence,
        # the edits of the first and of the last are applied and re-indexed)
        occs = [x for x in ws.occurrences() if x.ent == ent]
        for o in (occs if across else (occs[0], occs[-1])):
            path = os.path.join(root, o.file)
            r = s.result("textDocument/rename", {**Server.tdpp(path, o.line, (o.col + o.end) // 2), "newName": new_name})
            acc.count("requests")
            edits = []
            if isinstance(r, dict) and isinstance(r.get("changes"), dict):
                for uri, es in r["changes"].items():
                    for e in es:
                        edits.append((os.path.basename(uri), e["range"]["start"]["line"], e["range"]["start"]["character"], e["range"]["end"]["character"], e["newText"]))
            got = sorted(e[:4] for e in edits if tuple(e[:4]) not in may)
            if got != want or any(e[4] != new_name for e in edits):
                report("rename_edits", ent, want, got, f"rename from {o.file}:{o.line}:{o.col}")
                continue
            if o is not occs[0] and o is not occs[-1]:
                continue
            # apply the edits and re-index: every occurrence must resolve to the renamed declaration
            new_files = {}
            for fn, src in ws.files.items():
                lines = list(src.lines)
                for e in sorted([e for e in edits if e[0] == fn], key=lambda e: (e[1], -e[2])):
                    lines[e[1]] = lines[e[1]][: e[2]] + new_name + lines[e[1]][e[3]:]
                new_files[fn] = "\n".join(lines) + "\n"
            root2 = os.path.join(sc.path, "w2")
            if os.path.isdir(root2):
                import shutil

                shutil.rmtree(root2)
            os.makedirs(root2)
            for fn, t in new_files.items():
                with open(os.path.join(root2, fn), "w") as fh:
                    fh.write(t)
            s2 = Server([])
            s2.initialize(root2)
            # positions after the edit: shift by the length difference of earlier edits on the same line
            delta = len(new_name)
            decls = []  # (a separate module procedure has two: the interface body and the repeated header in the submodule)
            moved = []
            for x in occs:
                before = [y for y in occs if y.file == x.file and y.line == x.line and y.col < x.col]
                col = x.col + sum(delta - (y.end - y.col) for y in before)
                moved.append((x, col))
                if x.decl:
                    decls.append((x.file, x.line, col, col + delta))
            decl = decls[0] if len(decls) == 1 else None
            for x, col in moved:
                d = s2.result("textDocument/definition", Server.tdpp(os.path.join(root2, x.file), x.line, col + delta // 2))
                gotd = (os.path.basename(d["uri"]), d["range"]["start"]["line"], d["range"]["start"]["character"], d["range"]["end"]["character"]) if isinstance(d, dict) else d
                if (gotd not in decls) if len(decls) > 1 else (gotd != decl):
                    report("after_rename_resolution", ent, decl or decls, gotd, f"after rename to {new_name}: {x.file}:{x.line}:{col}")
                    break
    # An edit in the session: with ranged synchronisation, two blanks are typed in front of a line that holds an occurrence
    # (after a first search has looked at every line); the same search must then report that line's occurrences two
    # columns further right.
    if shape != "binding_same_name":
        s3 = Server(["--incremental_sync"])
        s3.initialize(root)
        for ent in ents:
            occs = [x for x in ws.occurrences() if x.ent == ent and not x.decl]
            if not occs:
                continue
            o = occs[-1]
            path = os.path.join(root, o.file)
            s3.open(path)
            pos = Server.tdpp(path, o.line, (o.col + o.end) // 2)
            s3.result("textDocument/references", {**pos, "context": {"includeDeclaration": True}})
            p0 = {"line": o.line, "character": 0}
            s3.change(path, [{"range": {"start": p0, "end": p0}, "text": "  "}])
            want = sorted((f_, l_, c_ + (2 if (f_, l_) == (o.file, o.line) else 0), e_ + (2 if (f_, l_) == (o.file, o.line) else 0))
                          for (f_, l_, c_, e_) in ranges_of(ws, ent))
            may = set()
            for e2 in MAY_INCLUDE.get(ent, ()):
                if e2 in ents:
                    may |= {(f_, l_, c_ + (2 if (f_, l_) == (o.file, o.line) else 0), e_ + (2 if (f_, l_) == (o.file, o.line) else 0)) for (f_, l_, c_, e_) in ranges_of(ws, e2)}
            pos2 = Server.tdpp(path, o.line, (o.col + o.end) // 2 + 2)
            refs = norm_locs(s3.result("textDocument/references", {**pos2, "context": {"includeDeclaration": True}}))
            acc.count("requests")
            refs_cmp = [r for r in refs if tuple(r) not in may] if isinstance(refs, list) else refs
            if refs_cmp != want:
                report("references_after_single_line_edit", ent, want, refs_cmp, f"references from {o.file}:{o.line}:{o.col + 2} after typing two blanks at the start of that line")
            # undo, so that the next entity starts from the text on disk
            s3.change(path, [{"range": {"start": p0, "end": {"line": o.line, "character": 2}}, "text": ""}])
    if len(acc.samples) < 2:
        acc.sample({"shape": shape, "name": n, "patterns": list(pats), "main": ws.files["main.f90"].text})


def jobs(maxlen):
    shapes = ["local", "shadow", "othermodule", "component", "procedure"]
    k = 0
    for shape in shapes:
        for n in NAMES:
            if shape == "procedure" and "$" in n:
                continue  # '$' in procedure names is outside what the statement patterns of fortls accept (variables only)
            for ln in range(1, maxlen + 1):
                for pats in itertools.product(PATTERNS, repeat=ln):
                    if len(set(pats)) != len(pats):
                        continue
                    k += 1
                    yield (shape, n, pats, NEW_NAMES[k % len(NEW_NAMES)])
    for shape in ("interface_body", "abstract_interface", "binding_same_name", "private_in_submodule", "override_and_namesake"):
        for n in NAMES:
            if "$" in n:
                continue
            for pats in ((), ("comment",), ("literal",), ("comment", "literal")):
                k += 1
                yield (shape, n, pats, NEW_NAMES[k % len(NEW_NAMES)])
    for shape in across_shapes():
        for n in NAMES:
            if "$" in n:
                continue
            for pats in ((), ("comment", "literal")):
                k += 1
                yield (shape, n, pats, NEW_NAMES[k % len(NEW_NAMES)])


def main(ctx):
    maxlen = 2 if ctx.quick else 3
    ctx.rule = (f"every sequence of <= {maxlen} distinct statement patterns from a 14-pattern alphabet x 5 scope shapes x 4 names (plus two shapes whose entity is a procedure declared by an interface body / an abstract interface) "
                "(i, xv, x_1, a$b); for every entity and every occurrence: references, documentHighlight; rename from the first and "
                "last occurrence with one of 4 new names, edits applied, fresh server, definition at every occurrence. "
                f"Plus {len(list(across_shapes()))} multi-file shapes (interface body in a module / separate module procedure / dummy of a separate module procedure, "
                "each x subroutine|function x use-only|use-all resp. short|repeated header resp. first|second dummy x file order) x 3 names x 2 pattern sets, "
                "rename from every occurrence. "
                "Non-trivial: all; distinct by (shape, name, patterns).")
    ctx.assumptions = ["'$' in names is a common extension (accepted by the fortls WORD pattern)",
                       "documentHighlight is compared with references (single-file entities) rather than restricted to the document"]
    acc = core.pmap(run_case, jobs(maxlen), chunk=8, budget_s=300, label="C06")
    ctx.add_family("occurrences", acc, max_patterns=maxlen)


def replay(rec):
    c = rec["case"]
    acc = Acc()
    run_case((c["shape"], c["name"], tuple(c["patterns"]), c["new_name"]), acc)
    return [v.to_json("C06") for v in acc.violations] or None
