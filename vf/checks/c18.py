"""C18 — exactly the configured source files are indexed at start-up.

Bounded-exhaustive enumeration of (directory tree, discovery settings, channel):
the full product of source_dirs x excl_paths x incl_suffixes x excl_suffixes x
{command line, configuration file} on fixed trees that contain every look-alike
(mixed-case suffixes, .f9, .f90.bak, backup~, a directory named like a source
file, hidden and empty directories).  Oracle `refscan`: the expected file set
computed from the property text with the standard library's glob/os.walk.
"""
from __future__ import annotations

import glob as globmod
import itertools
import json
import os
import re

from .. import core
from ..core import Acc, Violation
from ..driver import Server, worker_scratch

LEVEL = "exploration"

DEFAULT_SUFFIX = re.compile(r"\.(f|f77|f90|f95|f03|f08|for|fpp)$|\.(F|F77|F90|F95|F03|F08|FOR|FPP)$")


def tree(kind):
    """rel path -> module name (None: a non-source look-alike that still contains a module)."""
    T = {
        "a.f90": "m_a", "b.F90": "m_b", "c.f": "m_c", "t.txt": "x_txt", "m.f9": "x_f9", "n.f90.bak": "x_bak",
        "o.f90~": "x_tilde", "p.inc": "m_p_inc", "q.FYP": "m_q_fyp", "r.fyp": "m_r_fyp", "s_tmp.f90": "m_s_tmp",
        "sub/d.for": "m_d", "sub/e.F": "m_e", "sub/a.f90": "m_sub_a", "sub/u.inc": "m_u_inc",
        "sub/deep/f.F03": "m_f", "sub/deep/g.fpp": "m_g", "sub/deep/w_tmp.f90": "m_w_tmp",
        "excl/K.FOR": "m_k", "excl/h.f90": "m_h", "excl/inner/i.f90": "m_i", "excl/inner/z.F90": "m_z",
        ".hidden/j.f90": "m_j", "x.f90/k.f08": "m_k08", "docs/readme.txt": "x_readme",
        "only_inc/v.inc": "m_v_inc",
        # suffixes that are more than the text after the last dot
        "tmpl.F90.in": "m_tmpl_in", "sub/kern_gen": "m_kern_gen", "sub/t2.F90.in": "m_t2_in", "old.F90.in.bak": "x_in_bak", "only_tmpl/w.F90.in": "m_w_in",
        # directory names that are not their own glob pattern ("run[1]" as a pattern means "run1")
        "run[1]/b2.f90": "m_br_b", "run[1]/deep/c2.F90": "m_br_c", "run1/d2.f90": "m_run1_d",
    }
    if kind == "nested_only":
        T = {k: v for k, v in T.items() if "/" in k}
    elif kind == "flat":
        T = {k: v for k, v in T.items() if "/" not in k}
    return T


# (the same directory or file may be spelled in several ways: "docs/../excl" is "excl")
SOURCE_DIRS = [None, ["sub"], ["sub/**"], ["**"], [".", "sub"], ["nonexistent"], ["<ABS>/sub/deep"], ["s*", "excl/inner"],
               ["sub", "docs/../excl", "./excl/inner/"],
               # the root itself, configured: only the files directly in it (not the default discovery)
               ["."], ["<ABS>/"], ["sub/.."], [".", "excl"]]
EXCL_PATHS = [[], ["excl"], ["excl/**"], ["sub/a.f90"], ["**/*.F90"], ["excl", "sub/deep"], ["<ABS>/excl/inner"],
              ["docs/../excl/h.f90", "sub/../sub/a.f90", "excl/inner/../inner"],
              # the root itself, excluded: as for any directory, only the files directly in it
              ["."], ["<ABS>/"]]
INCL_SUFFIXES = [[], [".inc"], ["inc"], [".FYP"], [".F90.in", "_gen"]]
EXCL_SUFFIXES = [[], [".F90"], ["_tmp.f90"]]

# How the root directory is named (family `root_naming`).  The root is a path, not a pattern, and may be reached through
# a symbolic link: (directory name of the root, decoy sibling that the name would match if it were read as a glob pattern)
ROOT_KINDS = {
    "plain": ("ws", None),
    "class": ("pr[1]", None), "class_decoy": ("pr[1]", "pr1"),
    "qmark_decoy": ("pr?", "prx"), "star_decoy": ("p*r", "pxyr"),
    "symlink": None,          # rootPath = <scratch>/lnk -> <scratch>/real_ws
    "symlink_parent": None,   # rootPath = <scratch>/lnkp/ws, lnkp -> <scratch>/real_parent
}
DECOY = {"decoy.f90": "m_decoy", "sub/decoy2.f90": "m_decoy2", "other/decoy3.F90": "m_decoy3"}
# settings crossed with every way of naming the root (full product of these four lists x channel)
SOURCE_DIRS_R = [None, ["sub"], ["**"], ["."]]
EXCL_PATHS_R = [[], ["excl"], ["."], ["**/*.F90"], ["<ABS>/excl/inner"]]
INCL_SUFFIXES_R = [[], [".inc"]]
EXCL_SUFFIXES_R = [[]]


# ----------------------------------------------------------------- refscan
def _expand(root, pat, hidden):
    # a relative pattern is relative to the root *directory* (whose own name is not a pattern)
    p = pat if os.path.isabs(pat) else os.path.join(globmod.escape(root), pat)
    out = set()
    for m in globmod.glob(p, recursive=True, include_hidden=hidden):
        out.add(os.path.realpath(m))
    return out


def refscan(root, source_dirs, excl_paths, incl_suffixes, excl_suffixes, hidden):
    def is_src(name):
        return bool(DEFAULT_SUFFIX.search(name)) or any(name.endswith(s) for s in incl_suffixes)

    excl = set()
    for pat in excl_paths:
        excl |= _expand(root, pat, hidden)
    if source_dirs is None:
        dirs = set()
        for dp, dn, fn in os.walk(root):
            if any(is_src(f) and os.path.isfile(os.path.join(dp, f)) for f in fn):
                dirs.add(os.path.realpath(dp))
    else:
        dirs = set()
        for pat in source_dirs:
            dirs |= {p for p in _expand(root, pat, hidden) if os.path.isdir(p)}
    dirs -= excl
    files = set()
    for d in dirs:
        for f in os.listdir(d):
            p = os.path.join(d, f)
            if os.path.isfile(p) and is_src(f) and p not in excl and not any(f.endswith(e) for e in excl_suffixes):
                files.add(p)
    return files


# --------------------------------------------------------------- execution
def _write_tree(root, files):
    for rel, mod in files.items():
        p = os.path.join(root, rel)
        os.makedirs(os.path.dirname(p), exist_ok=True)
        with open(p, "w") as f:
            f.write(f"module {mod}\nend module {mod}\n")


def build_tree(sc, kind, rootkind="plain"):
    """Returns (the path handed to the server as rootPath, the real path of that directory)."""
    sc.wipe()
    base = os.path.realpath(sc.path)
    if rootkind == "symlink":
        root = os.path.join(base, "real_ws")
        given = os.path.join(base, "lnk")
        os.makedirs(root)
        os.symlink(root, given)
    elif rootkind == "symlink_parent":
        root = os.path.join(base, "real_parent", "ws")
        os.makedirs(root)
        os.symlink(os.path.join(base, "real_parent"), os.path.join(base, "lnkp"))
        given = os.path.join(base, "lnkp", "ws")
    else:
        name, decoy = ROOT_KINDS[rootkind]
        root = given = os.path.join(base, name)
        if decoy:
            _write_tree(os.path.join(base, decoy), DECOY)
    os.makedirs(os.path.join(root, "empty"))
    _write_tree(root, tree(kind))
    return given, root


def run_case(job, acc: Acc):
    kind, sd, ex, inc, exs, channel = job[:6]
    rootkind = job[6] if len(job) > 6 else "plain"
    family = "discovery" if len(job) == 6 else "root_naming"
    sc = worker_scratch("c18")
    given, root = build_tree(sc, kind, rootkind)
    # an absolute entry is a pattern too: the root's own name is written so that it stands for itself
    abs_prefix = globmod.escape(given)

    def absd(lst):
        return None if lst is None else [x.replace("<ABS>", abs_prefix) for x in lst]

    sd, ex = absd(sd), absd(ex)
    argv = []
    if channel == "cli":
        if sd is not None:
            argv += ["--source_dirs", *sd]
        if ex:
            argv += ["--excl_paths", *ex]
        if inc:
            argv += ["--incl_suffixes", *inc]
        if exs:
            argv += ["--excl_suffixes", *exs]
    else:
        cfg = {}
        if sd is not None:
            cfg["source_dirs"] = sd
        if ex:
            cfg["excl_paths"] = ex
        if inc:
            cfg["incl_suffixes"] = inc
        if exs:
            cfg["excl_suffixes"] = exs
        with open(os.path.join(root, ".fortlsrc"), "w") as f:
            json.dump(cfg, f)
    s = Server(argv)
    resp, other = s.initialize(given)
    exp_a = refscan(root, sd, ex, inc, exs, hidden=True)
    exp_b = refscan(root, sd, ex, inc, exs, hidden=False)
    key = (kind, repr(job[1]), repr(job[2]), repr(inc), repr(exs), channel, rootkind)
    case = {"tree": kind, "source_dirs": sd, "excl_paths": ex, "incl_suffixes": inc, "excl_suffixes": exs, "channel": channel}
    tags = {"family": family, "channel": channel, "source_dirs": "unset" if job[1] is None else json.dumps(job[1]),
            "excl_paths": json.dumps(job[2]), "incl_suffixes": json.dumps(inc), "excl_suffixes": json.dumps(exs)}
    if family == "root_naming":
        case.update(root=rootkind, root_path=given, spec={"source_dirs": job[1], "excl_paths": job[2]})
        tags["root"] = rootkind
    if "error" in resp:
        acc.case(nontrivial_key=key, outcome="error")
        acc.violation(Violation(family, {**tags, "obs": "initialize_error"}, case, "result",
                                str(resp["error"].get("message"))[:200], what=str(case)))
        return
    got = {os.path.realpath(p) for p in s.srv.workspace}
    rel = lambda S: sorted(os.path.relpath(p, root) for p in S)  # noqa
    acc.case(nontrivial_key=key if 0 < len(exp_a) < len(tree(kind)) else None, outcome=tuple(rel(exp_a)))
    if got != exp_a and got != exp_b:
        missing, extra = exp_a - got, got - exp_a
        obs = "missing_and_extra" if missing and extra else ("missing" if missing else "extra")
        acc.violation(Violation(family, {**tags, "obs": obs}, case, rel(exp_a), rel(got),
                                what=f"{case} missing={rel(missing)} extra={rel(extra)}"))
        return
    # end to end: the symbols served are exactly the modules of the expected files
    syms = s.result("workspace/symbol", {"query": ""})
    names = sorted(x["name"] for x in syms) if isinstance(syms, list) else syms
    mods = tree(kind)
    want = sorted(mods[os.path.relpath(p, root)] for p in got)
    if names != want:
        acc.violation(Violation(family, {**tags, "obs": "symbols_differ"}, case, want, names, what=str(case)))
    if len(acc.samples) < 2:
        acc.sample({**case, "expected_files": rel(exp_a)})


def jobs(kinds):
    for kind in kinds:
        for sd, ex, inc, exs, ch in itertools.product(SOURCE_DIRS, EXCL_PATHS, INCL_SUFFIXES, EXCL_SUFFIXES, ("cli", "file")):
            yield (kind, sd, ex, inc, exs, ch)


def root_jobs(kinds):
    for kind in kinds:
        for rk in ROOT_KINDS:
            if rk == "plain":
                continue        # that is family `discovery`
            for sd, ex, inc, exs, ch in itertools.product(SOURCE_DIRS_R, EXCL_PATHS_R, INCL_SUFFIXES_R, EXCL_SUFFIXES_R, ("cli", "file")):
                yield (kind, sd, ex, inc, exs, ch, rk)


def main(ctx):
    kinds = ["full"] if ctx.quick else ["full", "nested_only", "flat"]
    ctx.rule = (f"full product source_dirs({len(SOURCE_DIRS)}) x excl_paths({len(EXCL_PATHS)}) x incl_suffixes({len(INCL_SUFFIXES)}) x "
                f"excl_suffixes({len(EXCL_SUFFIXES)}) x channel(2) per tree; "
                "oracle = expected file set from the property text (stdlib glob/os.walk); then workspace/symbol must list "
                "exactly the modules of those files. Non-trivial = expected set neither empty nor the whole tree. "
                f"root_naming: {len(ROOT_KINDS) - 1} ways of naming the root (names with glob metacharacters with and without a "
                "sibling they would match as patterns, through a symbolic link to the root or to its parent) x "
                f"source_dirs({len(SOURCE_DIRS_R)}) x excl_paths({len(EXCL_PATHS_R)}) x incl_suffixes({len(INCL_SUFFIXES_R)}) x "
                f"excl_suffixes({len(EXCL_SUFFIXES_R)}) x channel(2); same oracle.")
    ctx.assumptions = ["whether a wildcard matches hidden entries is not fixed by the statement: both readings are accepted",
                       "suffix matching is case-sensitive for configured suffixes; default suffixes in all-lower or all-upper case"]
    only = getattr(ctx, "only", None)
    if not only or "discovery" in only:
        acc = core.pmap(run_case, jobs(kinds), chunk=8, budget_s=60, label="C18")
        ctx.add_family("discovery", acc, trees=kinds)
    if not only or "root_naming" in only:
        racc = core.pmap(run_case, root_jobs(kinds), chunk=8, budget_s=60, label="C18/root_naming")
        ctx.add_family("root_naming", racc, trees=kinds, root_kinds=[k for k in ROOT_KINDS if k != "plain"])


def replay(rec):
    c = rec["case"]
    acc = Acc()

    if rec.get("family") == "root_naming" or "root" in c:
        sp = c["spec"]
        run_case((c["tree"], sp["source_dirs"], sp["excl_paths"], c["incl_suffixes"], c["excl_suffixes"], c["channel"], c["root"]), acc)
        return [v.to_json("C18") for v in acc.violations] or None

    # stored lists already have absolute paths substituted; map them back to the placeholder form
    def back(lst):
        if lst is None:
            return None
        return [re.sub(r"^/.*?/ws(?=/|$)", "<ABS>", x) for x in lst]
    run_case((c["tree"], back(c["source_dirs"]), back(c["excl_paths"]), c["incl_suffixes"], c["excl_suffixes"], c["channel"]), acc)
    return [v.to_json("C18") for v in acc.violations] or None
