"""C08 — preprocessor regions and macro table match a reference C preprocessor.

The model is the `refcpp` automaton (configuration = conditional stack x macro
table).  The check enumerates every directive skeleton up to the size/nesting
bound x every initial definition set, i.e. every path of the model's state graph
up to that bound, and replays each path against the implementation
(FortranFile.parse of a preprocessed file): the active `integer :: v_k` lines, the
indexed variables and the final macro table must agree.  A second family
enumerates macro bodies for object- and function-like substitution.
"""
from __future__ import annotations

import itertools
import os

import re
from .. import core, refcpp
from ..core import Acc, Violation
from ..driver import worker_scratch

LEVEL = "model_checking"

NAMES = ["A", "B"]
DEFS = [f"#define {n}{v}" for n in NAMES for v in ("", " 0", " 1", " 2")]
UNDEFS = [f"#undef {n}" for n in NAMES]
EXPRS = [
    "defined(A)", "defined B", "!defined(A)", "defined(A) && defined(B)", "defined(A) || defined(B)",
    "(defined A || defined B)", "!defined(A) && (B > 1)", "A", "!A", "A == 1", "A != 1", "B > 1", "A >= 2", "A < B",
    "A <= 1", "A && B", "A || !B", "(A == 1) && (B != 2)", "A + 1 > 2", "0", "1",
]
ELIF_EXPRS = ["defined(B)", "!defined(A)", "B == 1", "A > 1", "(defined A || defined B)", "1"]
INNER_OPENERS = ["#if defined(A)", "#if B > 1", "#if (defined A || defined B)", "#ifdef B", "#ifndef A", "#if 0"]
OPENERS = [f"#if {e}" for e in EXPRS] + [f"#ifdef {n}" for n in NAMES] + [f"#ifndef {n}" for n in NAMES]
INIT_SETS = [{}, {"A": ""}, {"A": "1"}, {"A": "0"}, {"B": "1"}, {"A": "1", "B": "0"}, {"A": "2", "B": "2"}]


class Alphabet:
    def __init__(self, simple, openers, inner_openers, elifs, max_elif=2):
        self.simple, self.openers, self.inner_openers, self.elifs, self.max_elif = simple, openers, inner_openers, elifs, max_elif


FULL = Alphabet(DEFS + UNDEFS, OPENERS, INNER_OPENERS, ELIF_EXPRS)
# deep structural family: constant conditions only, so that size goes to nesting and #elif/#else shapes
STRUCT = Alphabet(["#define C 7"], ["#if 0", "#if 1"], ["#if 0", "#if 1"], ["0", "1"], max_elif=2)


def gen_seq(n, depth, top=True, al=FULL):
    """All directive sequences of exactly n directives, nesting <= depth."""
    if n == 0:
        yield ()
        return
    for c in range(1, n + 1):
        for item in gen_item(c, depth, top, al):
            for rest in gen_seq(n - c, depth, top, al):
                yield item + rest


def gen_item(c, depth, top, al=FULL):
    if c == 1:
        for d in al.simple:
            yield (d,)
        return
    if depth <= 0:
        return
    openers = al.openers if top else al.inner_openers
    # opener + body(b0) + k x (elif + body) + optional (else + body) + endif
    inner = c - 2
    for nelif in range(0, al.max_elif + 1):
        for has_else in (False, True):
            fixed = nelif + (1 if has_else else 0)
            if fixed > inner:
                continue
            nparts = 1 + nelif + (1 if has_else else 0)
            for split in _compositions(inner - fixed, nparts):
                bodies = [list(gen_seq(b, depth - 1, False, al)) for b in split]
                for op in openers:
                    for elifs in itertools.product(al.elifs, repeat=nelif):
                        for combo in itertools.product(*bodies):
                            out = (op,) + combo[0]
                            for k, e in enumerate(elifs):
                                out += (f"#elif {e}",) + combo[1 + k]
                            if has_else:
                                out += ("#else",) + combo[-1]
                            yield out + ("#endif",)


def _compositions(total, parts):
    if parts == 1:
        yield (total,)
        return
    for first in range(total + 1):
        for rest in _compositions(total - first, parts - 1):
            yield (first,) + rest


def render(directives):
    """Interleave code lines: one `integer :: v_k` before, between and after.  A directive that contains a newline is
    a backslash-continued one and takes several lines; `@` in it stands for the number of the line it is on (the
    `integer :: w_k` probes written on continuation lines)."""
    lines = ["program pp", "integer :: v_1"]
    for d in directives:
        for part in d.split("\n"):
            lines.append(part.replace("@", str(len(lines))))
        lines.append(f"integer :: v_{len(lines)}")
    lines.append("end program pp")
    return lines


_PROBE = re.compile(r"\s*integer :: ([vw]_(\d+))")


def probes(lines):
    """(between, continuation): the names of the probe declarations between the directives (`v_k`, flush left) and of
    those on the continuation lines of directives (`w_k`), each as {name: line index}."""
    v, w = {}, {}
    for k, ln in enumerate(lines):
        m = _PROBE.match(ln)
        if m:
            (v if ln.startswith("integer") else w)[m.group(1)] = k
    return v, w


# ----------------------------------------------------------------- oracle
def impl_run(lines, defs, path="/nonexistent/pp.F90"):
    from fortls.parsers.internal.parser import FortranFile

    f = FortranFile(path)
    f.set_contents(list(lines))
    ast = f.parse(pp_defs=dict(defs), include_dirs=set())
    names = {v.name.lower() for v in ast.variable_list}
    skipped = set()
    for a, b in ast.pp_if:  # 0-based inclusive regions recorded from pp_skips
        skipped.update(range(a, b + 1))
    return names, f.pp_defs, list(f.contents_pp), skipped


def table_equal(ref, got):
    if set(ref) != set(got):
        return False
    for k, v in ref.items():
        g = got[k]
        if isinstance(v, tuple):
            if not isinstance(g, tuple):
                return False
            gp = tuple(p.strip() for p in g[0].split(",")) if g[0].strip() else ()
            if gp != v[0] or (v[1] != g[1] and not (v[1] == "" and g[1] == "True")):
                return False
        elif v == "":
            if g not in ("", "True"):
                return False
        elif g != v:
            return False
    return True


def features(directives):
    return {
        "elif": any(d.startswith("#elif") for d in directives),
        "else": "#else" in directives,
        "nested": _max_depth(directives) > 1,
        "paren_defined": any("(defined" in d for d in directives),
        "define": any(d.startswith("#define") for d in directives),
        "undef": any(d.startswith("#undef") for d in directives),
        "continued": any("\\\n" in d for d in directives),
        "continued_directives": ",".join(sorted({d.split()[0].lstrip("#").split("(")[0] for d in directives if "\\\n" in d})),
    }


def _max_depth(directives):
    d = m = 0
    for x in directives:
        if x.startswith("#if"):
            d += 1
            m = max(m, d)
        elif x == "#endif":
            d -= 1
    return m


def judge(lines, defs, ref_active, ref_defs):
    """Compare the implementation with the reference outcome: None or (obs, expected, observed)."""
    names, got_defs, _, skipped = impl_run(lines, defs)
    v, w = probes(lines)
    want = {n for n, k in v.items() if ref_active[k]}      # a continuation line of a directive is never code
    region_got = {n for n, k in v.items() if k not in skipped}
    got = names & (set(v) | set(w))
    if region_got != want:
        return "active_lines", sorted(want), sorted(region_got)
    if got != want:
        return "indexed_declarations", sorted(want), sorted(got)
    if not table_equal(ref_defs, got_defs):
        return "macro_table", ref_defs, got_defs
    return None


# Skeletons of at most this many directives are also replayed when they define a name a second time with another
# body (cpp replaces the definition); longer ones are left out as before (they are 60 % of the family).
REDEFINE_MAX = 3


def cond_case(job, acc: Acc, init_sets=None, family="conditionals", extra_tags=None, redefine=None):
    directives = job
    lines = render(directives)
    if redefine is None:
        redefine = len(directives) <= REDEFINE_MAX
    for defs in (INIT_SETS if init_sets is None else init_sets):
        events = []
        try:
            ref_active, ref_defs = refcpp.run(lines, defs, redefine=redefine, events=events)
        except refcpp.Invalid:
            acc.count("reference_undefined")
            continue
        acc.count("paths_replayed")
        acc.count("transitions", len(directives))
        if events:
            acc.count("paths_with_redefinition")
        acc.states.add(core.h64((tuple(sorted(ref_defs.items())), tuple(ref_active[-3:]))))
        v, _ = probes(lines)
        want = {n for n, k in v.items() if ref_active[k]}
        nontrivial = 0 < len(want) < len(v)
        acc.case(nontrivial_key=(directives, tuple(sorted(defs.items()))) if nontrivial else None,
                 outcome=(tuple(sorted(want)), tuple(sorted(ref_defs))))
        bad = judge(lines, defs, ref_active, ref_defs)
        if bad:
            obs, exp, seen = bad
            acc.violation(Violation(
                family, {"family": family, "obs": obs, **features(directives), "redefines": bool(events), **(extra_tags or {})},
                {"lines": lines, "defs": defs, "redefine": redefine}, exp, seen, what=f"{list(directives)} defs={defs}"))
    if len(acc.samples) < 2:
        acc.sample({"skeleton": list(directives), "init_defs": INIT_SETS[2]})


# ------------------------------------------------------- expression values
# A macro whose value is an expression of several tokens is substituted token by token; operator precedence applies
# to the *result* (`#define V 1 + 1`, `#if V * 4 == 5` is 1 + 1*4 == 5: true).  Values x conditions x the two ways of
# defining V (a directive, the pp_defs option) x directly / through a second macro.
VALUE_EXPRS = ["1", "2", "1 + 1", "2 - 1", "0 || 1", "1 && 0", "1 == 2", "2 > 1", "(1 + 1)", "- 1", "! 0", "3 % 2", "B", "B + 1"]
VALUE_CONDS = ["V", "!V", "! V == 0", "V * 2 == 3", "V * 4 == 5", "8 - V == 5", "6 / V == 7", "V && 0", "1 || V", "V == 0",
               "0 == V", "2 == V", "V > 1", "3 - V - 1 == 2", "- V == - 2", "V % 2 == 1", "(V) * 2 == 4", "defined(V) && V"]


def value_jobs():
    for val in VALUE_EXPRS:
        for cond in VALUE_CONDS:
            for via in ("define", "pp_defs"):
                for through in (False, True):
                    yield (val, cond, via, through)


def value_case(job, acc: Acc):
    val, cond, via, through = job
    d = []
    if via == "define":
        d.append(f"#define V {val}")
    if through:
        d.append("#define W V")
        cond = re.sub(r"\bV\b", "W", cond) if "defined" not in cond else cond
    d += [f"#if {cond}", "#define R 1", "#else", "#define R 2", "#endif"]
    inits = [{"B": "2"}, {}] if via == "define" else [{"V": val, "B": "2"}, {"V": val}]
    lines = render(tuple(d))
    for defs in inits:
        try:
            ref_active, _ = refcpp.run(lines, defs)
        except refcpp.Invalid:
            continue
        gnu = refcpp.gnu_cpp_active(lines, defs)
        if gnu is not None:
            want = [a for a, ln in zip(ref_active, lines) if not ln.startswith("#")]
            have = [a for a, ln in zip(gnu, lines) if not ln.startswith("#")]
            if want != have:
                raise core.HarnessError(f"refcpp disagrees with GNU cpp on {lines} defs={defs}: {want} vs {have}")
            acc.count("agrees_with_gnu_cpp")
    cond_case(tuple(d), acc, init_sets=inits, family="expression_values",
              extra_tags={"value_tokens": len(val.split()), "via": via, "through_second_macro": through})


# --------------------------------------------------------- directive forms
# The ways of *writing* a directive that cpp accepts: a second #define of a defined name (of a directive, of pp_defs)
# replaces the body; a directive that ends in a backslash goes on on the next line - the condition of #if / #elif, the
# body of a #define with and without a blank before the backslash, object- and function-like, and what follows the name
# of an #undef (ignored).  Continuation lines that would be declarations if they were read as code carry a probe
# `integer :: w_k`.  All sequences over this alphabet like in `conditionals`, each also compared with GNU cpp (active
# lines and final table).
FORMS = Alphabet(
    ["#define A 1", "#define A 2", "#undef A",
     "#define A \\\n 2", "#define A\\\n 2", "#define B\\\n integer :: w_@", "#define F(x)\\\n integer :: w_@(x)",
     "#undef A \\\n integer :: w_@"],
    ["#if A == 2", "#ifdef B", "#if defined(A) && \\\n defined(B)", "#if defined(F) || \\\n A == 1", "#if A == \\\n 2",
     "#if !defined(B) && \\\n defined(A) && \\\n A > 1"],
    ["#if defined(B) || \\\n A == 1", "#ifndef A"],
    ["A == 1", "defined(B) && \\\n A == 2", "!defined(A) || \\\n 0"], max_elif=1)
FORMS_INIT = [{}, {"A": "1"}, {"A": "2", "B": "1"}]


GNU_FORMS_MAX = 3   # sequences of at most this many directives are also given to GNU cpp (two processes per path)


def forms_case(job, acc: Acc):
    cond_case(job, acc, init_sets=FORMS_INIT, family="directive_forms", redefine=True)
    if len(job) > GNU_FORMS_MAX:
        return
    lines = render(job)
    for defs in FORMS_INIT:
        try:
            ref_active, ref_defs = refcpp.run(lines, defs)
        except refcpp.Invalid:
            continue
        both = refcpp.gnu_cpp_run(lines, defs)
        if both is None:
            acc.count("gnu_cpp_rejects")
            continue
        gnu, table = both
        code = list(probes(lines)[0].values())
        if [ref_active[k] for k in code] != [gnu[k] for k in code] or refcpp.normal_table(ref_defs) != table:
            raise core.HarnessError(f"refcpp disagrees with GNU cpp on {lines} defs={defs}: "
                                    f"{[ref_active[k] for k in code]} {ref_defs} vs {[gnu[k] for k in code]} {table}")
        acc.count("agrees_with_gnu_cpp")


# ----------------------------------------------------------- include paths
# `#include "path"`: the path may name directories; it is taken relative to the directory of the file the directive
# is written in (cpp's first and, without -I, only place).  Headers in the directory of the source, one and two
# directories below; every header defines a name of its own, two of them include a neighbour.
PATH_HEADERS = {
    "top.h": ["#define TOP 1"],
    "sub/d.h": ["#define D 1", '#include "e.h"'],
    "sub/e.h": ["#define E 1"],
    "sub/deep/f.h": ["#define F 1", '#include "../e.h"', '#include "../../top.h"'],
}
PATH_SPELLINGS = ["top.h", "./top.h", "sub/d.h", "./sub/d.h", "sub/e.h", "sub/../top.h", "sub/deep/f.h", "sub/deep/../d.h"]
PATH_WRITINGS = ['#include "%s"', '#include"%s"', '#  include  "%s"']
PATH_PLACES = ["top", "active", "inactive"]


def include_path_jobs():
    for wr in PATH_WRITINGS:
        for place in PATH_PLACES:
            for a in PATH_SPELLINGS:
                yield (wr, place, (a,))
                if wr == PATH_WRITINGS[0]:
                    for b in PATH_SPELLINGS:
                        yield (wr, place, (a, b))


def include_path_lines(job):
    wr, place, spellings = job
    lines = ["program pinc"]
    for sp in spellings:
        if place != "top":
            lines.append("#if 1" if place == "active" else "#if 0")
        lines.append(wr % sp)
        if place != "top":
            lines.append("#endif")
    for name in ("TOP", "D", "E", "F"):
        lines += [f"#ifdef {name}", f"integer :: v_{len(lines) + 1}", "#endif"]
    lines.append("end program pinc")
    return lines


def _header_dir(tag, headers):
    """A directory of this worker's scratch space that holds `headers` (written once per process)."""
    sc = worker_scratch("c08")
    if not os.path.exists(os.path.join(sc.path, tag, ".written")):
        for n, hl in headers.items():
            sc.write(f"{tag}/{n}", "\n".join(hl) + "\n")
        sc.write(f"{tag}/.written", "")
    return os.path.join(sc.path, tag)


def include_path_case(job, acc: Acc):
    lines = include_path_lines(job)
    try:
        ref_active, ref_defs = refcpp.run(lines, {}, PATH_HEADERS)
    except refcpp.Invalid:
        acc.count("reference_undefined")
        return
    root = _header_dir("paths", PATH_HEADERS)
    gnu = refcpp.gnu_cpp_active(lines, {}, cwd=root)
    v, _ = probes(lines)
    if gnu is None or any(gnu[k] != ref_active[k] for k in v.values()):
        raise core.HarnessError(f"refcpp disagrees with GNU cpp on {lines}: {ref_active} vs {gnu}")
    acc.count("agrees_with_gnu_cpp")
    names, got_defs, _, _ = impl_run(lines, {}, os.path.join(root, "main.F90"))
    want = {n for n, k in v.items() if ref_active[k]}
    got = names & set(v)
    acc.case(nontrivial_key=job if 0 < len(want) < len(v) else None, outcome=(tuple(sorted(want)), tuple(sorted(ref_defs))))
    obs = None
    if got != want:
        obs, exp, seen = "indexed_declarations", sorted(want), sorted(got)
    elif not table_equal(ref_defs, got_defs):
        obs, exp, seen = "macro_table", ref_defs, dict(got_defs)
    if obs:
        sp = job[2]
        acc.violation(Violation("include_paths", {
            "family": "include_paths", "obs": obs, "directory_in_path": any("/" in x.replace("./", "", 1) or ".." in x for x in sp),
            "dotdot": any(".." in x for x in sp), "place": job[1], "writing": PATH_WRITINGS.index(job[0]), "twice": len(sp) > 1},
            {"lines": lines, "headers": PATH_HEADERS, "job": [job[0], job[1], list(sp)]}, exp, seen, what=f"{lines[1:1 + 3 * len(sp)]}"))
    if len(acc.samples) < 1 and len(job[2]) > 1:
        acc.sample({"main": lines, "headers": PATH_HEADERS})


# ---------------------------------------------------------------- includes
# Headers processed in place: what a header defines depends on the macros at the point of inclusion, the same header
# may be included several times (the "template" idiom), directly or through another header.
HEADERS = {
    "k.h": ["#ifndef W", "#define W 4", "#endif", "#if W == 8", "#define HAVE_DP 1", "#endif", "#define RK W"],
    "j.h": ['#include "k.h"', "#define FROM_J 1"],
    "u.h": ["#undef HAVE_DP", "#undef W"],
}
INC_ITEMS = {
    "D4": ["#define W 4"], "D8": ["#define W 8"], "U": ["#undef W"], "IK": ['#include "k.h"'], "IJ": ['#include "j.h"'],
    "IU": ['#include "u.h"'],
    "P1": ["#ifdef HAVE_DP", "integer :: v_@", "#else", "integer :: v_@", "#endif"],
    "P2": ["#if RK == 8", "integer :: v_@", "#endif"],
}


def include_jobs(maxlen):
    keys = list(INC_ITEMS)
    for n in range(1, maxlen + 1):
        for combo in itertools.product(keys, repeat=n):
            if not any(c.startswith("I") for c in combo) or not any(c.startswith("P") for c in combo):
                continue
            yield combo


def include_case(combo, acc: Acc):
    from fortls.parsers.internal.parser import FortranFile

    lines = ["program pinc"]
    for c in combo:
        for t in INC_ITEMS[c]:
            lines.append(t.replace("@", str(len(lines))))
    lines.append("end program pinc")
    try:
        ref_active, ref_defs = refcpp.run(lines, {}, HEADERS)
    except refcpp.Invalid:
        acc.count("reference_undefined")
        return
    sc = worker_scratch("c08inc")
    if not os.path.exists(os.path.join(sc.path, "k.h")):
        for n, hl in HEADERS.items():
            sc.write(n, "\n".join(hl) + "\n")
    path = os.path.join(sc.path, "main.F90")
    f = FortranFile(path)
    f.set_contents(list(lines))
    ast = f.parse(pp_defs={}, include_dirs=set())
    names = {v.name.lower() for v in ast.variable_list}
    want = {f"v_{k}" for k, ln in enumerate(lines) if ln.startswith("integer :: v_") and ref_active[k]}
    all_v = {f"v_{k}" for k, ln in enumerate(lines) if ln.startswith("integer :: v_")}
    got = names & all_v
    acc.count("paths_replayed")
    acc.case(nontrivial_key=combo if 0 < len(want) < len(all_v) else None, outcome=(tuple(sorted(want)), tuple(sorted(ref_defs))))
    obs = None
    if got != want:
        obs, exp, seen = "indexed_declarations", sorted(want), sorted(got)
    elif not table_equal(ref_defs, f.pp_defs):
        obs, exp, seen = "macro_table", ref_defs, dict(f.pp_defs)
    if obs:
        acc.violation(Violation("includes", {"family": "includes", "obs": obs, "twice": sum(c.startswith("I") for c in combo) > 1,
                                             "nested": "IJ" in combo},
                                {"lines": lines, "headers": HEADERS, "combo": list(combo)}, exp, seen, what=f"{list(combo)}"))
    if len(acc.samples) < 1 and len(combo) >= 4:
        acc.sample({"main": lines, "headers": HEADERS})


# ------------------------------------------------------------ substitution
BODY_ATOMS = ["x", "1", " ", "+", "(", ")", "\\", "'", '"', ".", "*", "[", "$", "\\1", "\\g<0>", "y"]


def bodies(maxlen):
    for n in range(1, maxlen + 1):
        for t in itertools.product(BODY_ATOMS, repeat=n):
            b = "".join(t).strip()
            if b and "  " not in b:
                yield b


def subst_jobs(maxlen):
    seen = set()
    for b in bodies(maxlen):
        if b in seen:
            continue
        seen.add(b)
        if b.endswith("\\"):
            continue  # a trailing backslash continues the #define on the next line: a different directive
        yield ("object", b)
        if ("'" in b or '"' in b) and ("x" in b or "y" in b):
            continue  # parameters inside (possibly unterminated) quotes: ISO and traditional cpp disagree
        if "$x" in b or "$y" in b:
            continue  # whether `$` is an identifier character is implementation-defined
        yield ("function1", b)
        if "y" in b:
            yield ("function2", b)


def subst_case(job, acc: Acc):
    kind, body = job
    if kind == "object":
        lines = [f"#define MAC {body}", "q = MAC + r"]
    elif kind == "function1":
        lines = [f"#define MAC(x) {body}", "q = MAC(a1) + r"]
    else:
        lines = [f"#define MAC(x, y) {body}", "q = MAC(a1,b2) + r"]
    _subst_check("substitution", kind, body, lines, 1, acc)


def _subst_check(family, kind, body, lines, use_line, acc, extra_tags=None, headers=None, tag="subst"):
    """`headers` (path -> lines): the text `#include`s them; they are written next to the source file."""
    try:
        _, ref_defs = refcpp.run(lines, {}, headers)
    except refcpp.Invalid:
        acc.count("reference_undefined")
        return
    # definitions in force at the use line = definitions made above it
    _, defs_at = refcpp.run(lines[:use_line], {}, headers)
    want = refcpp.substitute(lines[use_line], defs_at)
    exc = None
    path = os.path.join(_header_dir(tag, headers), "main.F90") if headers else "/nonexistent/pp.F90"
    try:
        _, _, pp, _ = impl_run(["program p"] + lines + ["end program p"], {}, path)
        got = pp[1 + use_line]
    except Exception as e:  # noqa
        got, exc = None, type(e).__name__
    key = (family, kind, body) + ((tuple(sorted(extra_tags.items())),) if extra_tags else ())
    acc.case(nontrivial_key=key if want != lines[use_line] else None, outcome=want)
    if got != want:
        tags = {"family": family, "kind": kind, "obs": "exception:" + exc if exc else "replacement_differs",
                "backslash": "\\" in body, "quote": "'" in body or '"' in body, **(extra_tags or {})}
        case = {"lines": lines, "use_line": use_line}
        if headers:
            case.update(headers=headers, tag=tag)
        acc.violation(Violation(family, tags, case, want, got, what=f"{lines}"))
    if len(acc.samples) < 2:
        acc.sample({"macro_lines": lines, "expected": want})


# A name defined a second time without #undef (cpp replaces the definition), and a name re-defined by an #include'd
# header: before / after as object- or function-like macro, used or not before the second definition (a use makes
# the implementation compile the macro), the header with and without #undef, in the source's directory or below it,
# included directly or through a second header.
_MAC = {"object": ("#define MAC %s", "a = MAC"), "function1": ("#define MAC(x) x+%s", "a = MAC(c)")}
REDEF_HEADERS = {}
for _k2 in ("object", "function1"):
    for _style in ("undef_define", "define", "undef"):
        _hl = (["#undef MAC"] if "undef" in _style else []) + ([_MAC[_k2][0] % "2"] if "define" in _style else [])
        for _dir in ("", "sub/"):
            REDEF_HEADERS[f"{_dir}r_{_k2}_{_style}.h"] = _hl
            REDEF_HEADERS[f"{_dir}n_{_k2}_{_style}.h"] = [f'#include "r_{_k2}_{_style}.h"']


def redefinition_cases():
    for k1 in ("object", "function1"):
        for k2 in ("object", "function1"):
            for used in (False, True):
                first = [_MAC[k1][0] % "1"] + ([_MAC[k1][1]] if used else [])
                tags = {"before": k1, "after": k2, "used_before": used}
                yield ("redefine_without_undef", k2, first + [_MAC[k2][0] % "2", "q = MAC(a1)"], None, {**tags, "via": "same_file"})
                for style in ("undef_define", "define", "undef"):
                    for d in ("", "sub/"):
                        for nested in (False, True):
                            h = f"{d}{'n' if nested else 'r'}_{k2}_{style}.h"
                            yield ("redefine_in_header", k2, first + [f'#include "{h}"', "q = MAC(a1)"], REDEF_HEADERS,
                                   {**tags, "via": "header", "header": style, "directory_in_path": bool(d), "nested": nested})


def subfamily_cases():
    # two uses of a function-like macro on one line; empty body; redefinition after
    # #undef with a use in between; nested macro references
    return [
        ("two_uses_one_line", "function1", "x+1", ["#define MAC(x) x+1", "q = MAC(a1) + MAC(b2)"], 1),
        ("two_uses_one_line", "object", "7", ["#define MAC 7", "q = MAC + MAC"], 1),
        ("empty_body", "object", "", ["#define MAC", "q = MAC r"], 1),
        ("redefine_after_undef", "object", "2", ["#define MAC 1", "a = MAC", "#undef MAC", "#define MAC 2", "q = MAC"], 4),
        ("redefine_after_undef", "function1", "x+2", ["#define MAC(x) x+1", "a = MAC(c)", "#undef MAC", "#define MAC(x) x+2", "q = MAC(a1)"], 4),
        ("use_after_undef", "object", "1", ["#define MAC 1", "#undef MAC", "q = MAC"], 2),
        ("nested_reference", "object", "OTHER", ["#define OTHER 5", "#define MAC OTHER", "q = MAC"], 2),
        ("inactive_define", "object", "1", ["#if 0", "#define MAC 1", "#endif", "q = MAC"], 3),
        ("name_is_substring", "object", "9", ["#define MAC 9", "q = MACRO + XMAC + MAC_1"], 1),
        ("nested_parens_arg", "function1", "x*2", ["#define MAC(x) x*2", "q = MAC(f(a, b))"], 1),
        # a body that mentions another macro, in both orders of definition, object- and function-like
        ("chain_defined_later", "object", "OTHER", ["#define MAC OTHER", "#define OTHER real(8)", "MAC :: q"], 2),
        ("chain_defined_earlier", "object", "OTHER", ["#define OTHER real(8)", "#define MAC OTHER", "MAC :: q"], 2),
        ("chain_function_later", "function1", "OTHER :: x", ["#define MAC(x) OTHER :: x", "#define OTHER integer(4)", "MAC(q)"], 2),
        ("chain_function_earlier", "function1", "OTHER :: x", ["#define OTHER integer(4)", "#define MAC(x) OTHER :: x", "MAC(q)"], 2),
        ("chain_three", "object", "MID", ["#define LAST 3", "#define MID LAST", "#define MAC MID", "q = MAC + LAST"], 3),
        ("argument_is_macro", "function1", "x+1", ["#define OTHER 5", "#define MAC(x) x+1", "q = MAC(OTHER)"], 2),
        ("zero_parameters", "function0", "7", ["#define MAC() 7", "q = MAC() + MAC ( )"], 1),
        ("zero_parameters_word_body", "function0", "seven", ["#define MAC() seven", "q = MAC()"], 1),
    ]


def _redefinition_table(fam, kind, lines, headers, tags, acc):
    """The macro table at the end of a `redefinition_cases` text."""
    try:
        _, ref_defs = refcpp.run(lines, {}, headers)
    except refcpp.Invalid:
        return
    path = os.path.join(_header_dir("redef", headers), "main.F90") if headers else "/nonexistent/pp.F90"
    try:
        _, got_defs, _, _ = impl_run(["program p"] + lines + ["end program p"], {}, path)
    except Exception:  # noqa  (reported by the comparison of the text)
        return
    acc.case(nontrivial_key=None, outcome=tuple(sorted(ref_defs)))
    if not table_equal(ref_defs, got_defs):
        case = {"lines": lines, "use_line": len(lines) - 1, "table": True}
        if headers:
            case.update(headers=headers, tag="redef")
        acc.violation(Violation("substitution_" + fam, {"family": "substitution_" + fam, "kind": kind, "obs": "macro_table", **tags},
                                case, ref_defs, dict(got_defs), what=f"{lines}"))


def subfamilies(acc: Acc):
    for fam, kind, body, lines, use in subfamily_cases():
        _subst_check("substitution_" + fam, kind, body, lines, use, acc)
    for fam, kind, lines, headers, tags in redefinition_cases():
        _subst_check("substitution_" + fam, kind, "2", lines, len(lines) - 1, acc, extra_tags=tags, headers=headers, tag="redef")
        _redefinition_table(fam, kind, lines, headers, tags, acc)
    # actual arguments that spell the name of a formal parameter: all parameters are replaced at once, the text of an
    # argument is not searched for the other parameters
    actuals = ["y", "x", "1", "y+x", "x*y", "f(y)"]
    for body in ("((x)+(y))", "real(y) :: x", "x y x", "y(x)"):
        for a in actuals:
            for b in actuals:
                _subst_check("substitution_argument_names_a_parameter", "function2", body,
                             [f"#define MAC(x,y) {body}", f"q = MAC({a},{b})"], 1, acc)
    for body in ("x+y+z", "z(y(x))"):
        for a, b, c in (("z", "x", "y"), ("y", "z", "x"), ("y", "y", "y"), ("z", "z", "1")):
            _subst_check("substitution_argument_names_a_parameter", "function3", body,
                         [f"#define MAC(x,y,z) {body}", f"q = MAC({a},{b},{c})"], 1, acc)


# ------------------------------------------------------------------- main
def _cond_jobs(nmax, depth, al=FULL):
    for n in range(0, nmax + 1):
        yield from gen_seq(n, depth, True, al)


def gnu_cross_check(ctx, jobs, acc_name="refcpp_vs_gnu_cpp"):
    """refcpp must agree with GNU cpp wherever both are defined; disagreement is
    a broken harness, not a violation."""
    def one(directives, acc: Acc):
        lines = render(directives)
        for defs in INIT_SETS:
            try:
                ref_active, _ = refcpp.run(lines, defs)
            except refcpp.Invalid:
                ref_active = None
            gnu = refcpp.gnu_cpp_active(lines, defs)
            acc.case(nontrivial_key=(directives, tuple(sorted(defs.items()))), outcome=None)
            if ref_active is None or gnu is None:
                if (ref_active is None) != (gnu is None):
                    acc.count("one_sided_undefined")
                continue
            want = [a for a, ln in zip(ref_active, lines) if not ln.startswith("#")]
            have = [a for a, ln in zip(gnu, lines) if not ln.startswith("#")]
            if want != have:
                acc.count("disagreements")
                acc.sample({"DISAGREE": lines, "defs": defs, "ref": want, "gnu": have}, cap=5)
            else:
                acc.count("agreements")
    acc = core.pmap(one, jobs, chunk=16, budget_s=120, label="C08/gnu")
    if acc.counters.get("disagreements"):
        raise core.HarnessError(f"refcpp disagrees with GNU cpp: {acc.samples[:3]}")
    return acc


def main(ctx):
    q = ctx.quick
    nmax, depth = (5, 2) if q else (6, 2)
    global REDEFINE_MAX, GNU_FORMS_MAX
    REDEFINE_MAX, GNU_FORMS_MAX = (3, 3) if q else (4, 4)
    ctx.rule = ("conditionals: every directive skeleton of <=N directives (#define/#undef of A,B with 4 bodies; #if over 21 "
                "expressions, #ifdef/#ifndef; up to 2 #elif, optional #else; nesting <=2) x 7 initial definition sets, a code "
                "line between all directives; reference refcpp. directive_forms: the same over an alphabet of redefinitions "
                "and backslash-continued #if/#elif/#define/#undef. include_paths: header paths with directories x ways of "
                "writing the directive x place. substitution: every macro body of <=L atoms over 16 atoms as "
                "object-like, 1- and 2-parameter function-like macro used once. Non-trivial = some but not all code lines "
                "active / the use line changes; distinct by (skeleton, definitions) / body.")
    ctx.assumptions = ["inputs for which the reference C preprocessor is undefined (empty #if expression, unbalanced "
                       "conditionals, a header that is not found) are excluded",
                       "a second #define with a different body replaces the first (GNU cpp warns and goes on); in `conditionals` "
                       "such skeletons are replayed up to %d directives and left out above (cost), `directive_forms` has them "
                       "at every size" % REDEFINE_MAX,
                       "`#define N` without body is compared by name only (fortls stores 'True', cpp stores '')",
                       "a continued #define has its whole body on the continuation line, which starts with a blank (how the "
                       "pieces of a body split over lines are joined is white space only, and not compared)"]
    acc = core.pmap(cond_case, _cond_jobs(nmax, depth), chunk=64, budget_s=120, label="C08/cond")
    ctx.add_family("conditionals", acc, max_directives=nmax, nesting=depth)
    smax, sdepth = (8, 3) if q else (10, 3)
    sacc0 = core.pmap(cond_case, _cond_jobs(smax, sdepth, STRUCT), chunk=64, budget_s=120, label="C08/struct")
    ctx.add_family("conditional_structure", sacc0, max_directives=smax, nesting=sdepth)
    fmax = 4 if q else 5
    facc = core.pmap(forms_case, _cond_jobs(fmax, 2, FORMS), chunk=32, budget_s=120, label="C08/forms")
    ctx.add_family("directive_forms", facc, max_directives=fmax, nesting=2, init_sets=len(FORMS_INIT),
                   what="redefinition without #undef; #if / #elif / #define NAME / #define NAME(x) / #undef continued with a "
                        "backslash (with and without a blank before it); paths of <= %d directives also run through GNU cpp "
                        "(active lines and final table)" % GNU_FORMS_MAX)
    pacc = core.pmap(include_path_case, list(include_path_jobs()), chunk=8, budget_s=120, label="C08/paths")
    ctx.add_family("include_paths", pacc, spellings=len(PATH_SPELLINGS), writings=len(PATH_WRITINGS), places=len(PATH_PLACES),
                   what="one or two #include of headers in the source's directory, one and two directories below, spelled "
                        "with ./ and ../; headers that include a neighbour; every case also run through GNU cpp")
    ctx.states = len(acc.states | sacc0.states)
    ctx.transitions = acc.counters.get("transitions", 0) + sacc0.counters.get("transitions", 0)
    ctx.traces_validated = acc.counters.get("paths_replayed", 0) + sacc0.counters.get("paths_replayed", 0)
    vacc = core.pmap(value_case, list(value_jobs()), chunk=16, budget_s=120, label="C08/values")
    ctx.add_family("expression_values", vacc, values=len(VALUE_EXPRS), conditions=len(VALUE_CONDS),
                   what="V defined by a directive or by pp_defs, used directly or through #define W V")
    iacc = core.pmap(include_case, include_jobs(5 if q else 6), chunk=128, budget_s=120, label="C08/includes")
    ctx.add_family("includes", iacc, what="sequences of <= %d items over #define/#undef of W, #include of three headers (one nested, one that "
                   "undefines) and two probe blocks; reference refcpp with in-place header processing" % (5 if q else 6))
    sacc = core.pmap(subst_case, subst_jobs(3 if q else 4), chunk=256, budget_s=60, label="C08/subst")
    ctx.add_family("substitution", sacc, max_atoms=3 if q else 4)
    sub = Acc()
    subfamilies(sub)
    ctx.add_family("substitution_subfamilies", sub)
    # reference model vs GNU cpp
    gjobs = list(_cond_jobs(2 if q else 3, 2))
    g = gnu_cross_check(ctx, gjobs)
    ctx.coverage_extra["refcpp_vs_gnu_cpp"] = {k: v for k, v in g.counters.items()}
    ctx.coverage_extra["refcpp_vs_gnu_cpp"]["cases"] = g.evaluations
    ctx.coverage_extra["note"] = ("states = distinct reference configurations (macro table x recent region bits) reached; "
                                  "transitions = directive steps; every explored path is replayed on the implementation")


def replay(rec):
    c = rec["case"]
    acc = Acc()
    if rec["family"] == "includes":
        include_case(tuple(c["combo"]), acc)
        return [v.to_json("C08") for v in acc.violations] or None
    if rec["family"] == "include_paths":
        include_path_case((c["job"][0], c["job"][1], tuple(c["job"][2])), acc)
        return [v.to_json("C08") for v in acc.violations] or None
    if rec["family"] in ("conditionals", "conditional_structure", "expression_values", "directive_forms"):
        lines, defs = c["lines"], c["defs"]
        ref_active, ref_defs = refcpp.run(lines, defs, redefine=c.get("redefine", False))
        bad = judge(lines, defs, ref_active, ref_defs)
        if bad:
            return {"obs": bad[0], "expected": bad[1], "observed": bad[2]}
        return None
    if c.get("table"):
        _redefinition_table(rec["family"][len("substitution_"):], rec["tags"].get("kind", "object"), c["lines"], c.get("headers"),
                            {}, acc)
    else:
        _subst_check(rec["family"], rec["tags"].get("kind", "object"), "", c["lines"], c["use_line"], acc,
                     headers=c.get("headers"), tag=c.get("tag", "subst"))
    return [v.to_json("C08") for v in acc.violations] or None
