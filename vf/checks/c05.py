"""C05 — go-to-definition follows Fortran's scoping and USE-association rules.

Bounded-exhaustive enumeration of generated workspaces in four families; the
generator builds every program from a model in which each use site has, by
construction (and by a reference resolver on the model, never on text), exactly
one accessible declaration, and records where every declaration and use is
(source map).  textDocument/definition at every use site must land on that
declaration's identifier.
  shadow   nesting module -> procedure -> internal procedure / BLOCK / ASSOCIATE,
           name declared at every subset of levels (local, dummy, result, associate)
  usegraph 2-3 modules + a using scope: declares x {no, plain, private}, default
           accessibility {public, private, private + public :: x}, edges {none, use,
           only: x, only: y => x, only: z}; re-export through intermediaries
  types    EXTENDS chains of length <= 3, component at each level, type/class objects,
           scalar / array-element / nested-component access, inside and outside the module
  include  a declaration brought in by INCLUDE at module or procedure level
  nested_close  a BLOCK re-declaring a host name, with 1-3 nested constructs closing directly before END BLOCK (or not)
  constructs  ASSOCIATE names and member access through them, for nine selector shapes (variable, component, array
           element, nested / call subscripts, two subscripted levels, whole object), one or two bindings
  types_files  a three-level EXTENDS chain over three files and a user file, indexed in every
           scripted start-up enumeration order of the four files
"""
from __future__ import annotations

import itertools
import os
import subprocess

from .. import core
from ..core import Acc, Violation
from ..driver import Server, worker_scratch
from ..fbuild import D, U, Workspace

LEVEL = "exploration"


# ===================================================================== shadow
def shadow_cases():
    for unit in ("module", "program"):
        for l0 in (None, "var"):
            for l1 in (None, "local", "dummy"):
                for l2 in (None, "local", "dummy", "result"):
                    for l2b in (None, "local"):
                        for assoc in (False, True):
                            yield (unit, l0, l1, l2, l2b, assoc)


def build_shadow(p):
    unit, l0, l1, l2, l2b, assoc = p
    ws = Workspace()
    f = ws.file("shadow.f90")
    uses = []
    top = "sm" if unit == "module" else "sp"
    f.add(f"{unit} {top}")
    f.add("  implicit none")
    f.add("  integer :: other")
    if l0:
        f.add("  integer :: ", D("x", "L0"))
    if unit == "program":
        f.add("  call outer(" + ("other" if l1 == "dummy" else "") + ")")
    f.add("contains")
    f.add("  subroutine outer(" + ("x" if l1 == "dummy" else "") + ")")
    if l1:
        f.add("    integer :: ", D("x", "L1"))
    f.add("    integer :: y1")
    vis1 = "L1" if l1 else ("L0" if l0 else None)
    if vis1:
        f.add("    ", U("x", vis1), " = 1")
    f.add("    block")
    if l2b:
        f.add("      integer :: ", D("x", "L2b"))
    visb = "L2b" if l2b else vis1
    if visb:
        f.add("      ", U("x", visb), " = 2")
    f.add("    end block")
    if assoc:
        f.add("    associate (", D("x", "ASSOC"), " => y1)")
        f.add("      ", U("x", "ASSOC"), " = 4")
        f.add("    end associate")
    f.add("    call inner(" + ("y1" if l2 == "dummy" else "") + ")")
    if l2 == "result":
        f.add("    y1 = fres()")
    f.add("  contains")
    if l2 == "result":
        f.add("    function fres() result(x)")
        f.add("      integer :: ", D("x", "L2"))
        f.add("      ", U("x", "L2"), " = 3")
        f.add("    end function fres")
        f.add("    subroutine inner()")
        if vis1:
            f.add("      ", U("x", vis1), " = 5")
        f.add("    end subroutine inner")
    else:
        f.add("    subroutine inner(" + ("x" if l2 == "dummy" else "") + ")")
        if l2:
            f.add("      integer :: ", D("x", "L2"))
        vis2 = "L2" if l2 else vis1
        if vis2:
            f.add("      ", U("x", vis2), " = 3")
        f.add("    end subroutine inner")
    f.add("  end subroutine outer")
    f.add(f"end {unit} {top}")
    return ws


# =================================================================== usegraph
DECLS = (None, "plain", "private")
DEFAULTS = ("public", "private", "private_pubx")
EDGES = (None, "all", "only_x", "only_y", "only_z")
AMBIG = "<ambiguous>"


class Invalid(Exception):
    pass


def resolve_modules(mods, edges):
    """mods[i] = (decl, default); edges[(i, j)] = spec for 'module i uses module j' (j < i).
    Returns per module (accessible: name -> entity, exported: name -> entity)."""
    acc_, exp_ = [], []
    for i, (decl, default) in enumerate(mods):
        if decl == "private" and default == "private_pubx":
            raise Invalid("x both PRIVATE (attribute) and PUBLIC (statement)")
        names = {}

        def put(name, ent):
            if name in names and names[name] != ent:
                names[name] = AMBIG
            else:
                names[name] = ent

        for j in range(i):
            spec = edges.get((i, j))
            if spec is None:
                continue
            ex = exp_[j]
            if spec == "all":
                for n, e in ex.items():
                    put(n, e)
            elif spec == "only_x":
                if "x" not in ex or ex["x"] == AMBIG:
                    raise Invalid("only: x not exported")
                put("x", ex["x"])
            elif spec == "only_y":
                if "x" not in ex or ex["x"] == AMBIG:
                    raise Invalid("only: y => x not exported")
                put("y", ex["x"])
            elif spec == "only_z":
                put(f"z{j}", f"M{j}::z")
        if decl:
            if "x" in names:
                raise Invalid("declares a name that is use associated")
            names["x"] = f"M{i}::x"
        names[f"z{i}"] = f"M{i}::z"
        if default == "private_pubx" and ("x" not in names or names["x"] == AMBIG):
            raise Invalid("public :: x but x is not accessible / ambiguous")
        exported = {}
        for n, e in names.items():
            own_x = n == "x" and decl is not None
            if n == f"z{i}":
                public = True  # declared with the PUBLIC attribute
            elif own_x and decl == "private":
                public = False
            elif default == "public":
                public = True
            elif default == "private_pubx" and n == "x":
                public = True
            else:
                public = False
            if public:
                exported[n] = e
        acc_.append(names)
        exp_.append(exported)
    return acc_, exp_


def usegraph_cases(k, reduced):
    decls = (None, "plain") if reduced else DECLS
    defaults = ("public", "private") if reduced == 1 else DEFAULTS
    edgesv = (None, "all", "only_x") if reduced else EDGES
    uedgesv = (None, "all", "only_x", "only_y") if reduced == 2 else edgesv
    uedgesv = uedgesv + ("only_none",)     # 'use m, only:' - an empty ONLY list imports nothing
    pairs = [(i, j) for i in range(k) for j in range(i)]
    for mods in itertools.product(itertools.product(decls, defaults), repeat=k):
        for ev in itertools.product(edgesv, repeat=len(pairs)):
            edges = dict(zip(pairs, ev))
            try:
                acc_, exp_ = resolve_modules(mods, edges)
            except Invalid:
                continue
            for uedges in itertools.product(uedgesv, repeat=k):
                if not any(uedges):
                    continue
                for ukind in (("program",) if reduced == 2 else ("program", "inner_with_host_x")):
                    yield (mods, ev, uedges, ukind)


def build_usegraph(p):
    mods, ev, uedges, ukind = p
    k = len(mods)
    pairs = [(i, j) for i in range(k) for j in range(i)]
    edges = dict(zip(pairs, ev))
    acc_, exp_ = resolve_modules(mods, edges)
    # the using scope
    names = {}

    def put(name, ent):
        if name in names and names[name] != ent:
            names[name] = AMBIG
        else:
            names[name] = ent

    for j, spec in enumerate(uedges):
        if spec is None:
            continue
        ex = exp_[j]
        if spec == "all":
            for n, e in ex.items():
                put(n, e)
        elif spec == "only_x":
            if "x" not in ex or ex["x"] == AMBIG:
                raise Invalid("user only: x")
            put("x", ex["x"])
        elif spec == "only_y":
            if "x" not in ex or ex["x"] == AMBIG:
                raise Invalid("user only: y => x")
            put("y", ex["x"])
        elif spec == "only_z":
            put(f"z{j}", f"M{j}::z")
        # only_none: nothing
    ws = Workspace()

    def use_line(j, spec):
        if spec == "all":
            return f"  use um{j}"
        if spec == "only_x":
            return f"  use um{j}, only: x"
        if spec == "only_y":
            return f"  use um{j}, only: y => x"
        if spec == "only_none":
            return f"  use um{j}, only:"
        return f"  use um{j}, only: z{j}"

    for i, (decl, default) in enumerate(mods):
        f = ws.file(f"um{i}.f90")
        f.add(f"module um{i}")
        for j in range(i):
            if edges.get((i, j)):
                f.add(use_line(j, edges[(i, j)]))
        f.add("  implicit none")
        if default != "public":
            f.add("  private")
        if default == "private_pubx":
            f.add("  public :: x")
        if decl == "plain":
            f.add("  integer :: ", D("x", f"M{i}::x"))
        elif decl == "private":
            f.add("  integer, private :: ", D("x", f"M{i}::x"))
        f.add("  integer, public :: ", D(f"z{i}", f"M{i}::z"))
        f.add(f"end module um{i}")
    f = ws.file("user.f90")
    f.add("program user_p")
    if ukind == "program":
        for j, spec in enumerate(uedges):
            if spec:
                f.add(use_line(j, spec))
        f.add("  implicit none")
        f.add("  integer :: w")
        for n in ("x", "y"):
            if n in names and names[n] != AMBIG:
                f.add("  w = ", U(n, names[n]))
        f.add("end program user_p")
    else:
        f.add("  implicit none")
        f.add("  integer :: ", D("x", "HOST::x"))
        f.add("  ", U("x", "HOST::x"), " = 0")
        f.add("  call inner()")
        f.add("contains")
        f.add("  subroutine inner()")
        # (this kind states its USE lines in descending module order, the program kind in ascending order: which
        # statement of a module reached twice is met first is part of the input)
        for j, spec in reversed(list(enumerate(uedges))):
            if spec:
                f.add("  " + use_line(j, spec))
        f.add("    integer :: w")
        bx = names.get("x", "HOST::x")
        if bx != AMBIG:
            f.add("    w = ", U("x", bx))
        if "y" in names and names["y"] != AMBIG:
            f.add("    w = ", U("y", names["y"]))
        f.add("  end subroutine inner")
        f.add("end program user_p")
    # A second using scope in another file, reaching the graph through one module only, whose host declares its own x:
    # what the first scope's lookups did to the USE statements they walked through must not show here (run_case asks
    # every site a second time after all others).  Only for graphs without PRIVATE defaults (D05a/D05b lie there).
    last = max((j for j, spec in enumerate(uedges) if spec), default=None)
    if last is not None and all(d == "public" for (_, d) in mods):
        ex = exp_[last]
        g = ws.file("second.f90")
        g.add("module second_host")
        g.add("  implicit none")
        g.add("  integer :: ", D("x", "SECOND::x"))
        g.add("contains")
        g.add("  subroutine second_user()")
        g.add(f"    use um{last}")
        g.add("    integer :: w")
        bx = ex.get("x", "SECOND::x")
        if bx != AMBIG:
            g.add("    w = ", U("x", bx))
        g.add("    w = ", U(f"z{last}", f"M{last}::z"))
        g.add("  end subroutine second_user")
        g.add("end module second_host")
    return ws


# ====================================================================== types
def types_cases():
    for n in (1, 2, 3):
        for objkind in ("type", "class"):
            for where in ("inside", "outside"):
                for clash in (False, True):
                    for ctor in (None, "before", "after"):
                        yield (n, objkind, where, clash, ctor)


def build_types(p):
    # clash: the component of type wt is itself named wt (legal: component names live in the type's own scope), next to
    # a second component of that type -- the *type* name must still be found from inside the derived type
    # ctor: generic interfaces named like the types wt and t1 (the constructor idiom), before or after the type definition
    n, objkind, where, clash, ctor = p
    w = "wt" if clash else "w"
    ws = Workspace()
    f = ws.file("tmod.f90")
    f.add("module tmod")
    f.add("  implicit none")
    def ctor_interfaces():
        for t in ("wt", "t1"):
            f.add(f"  interface {t}")
            f.add(f"    module procedure {t}_new")
            f.add(f"  end interface {t}")

    def ctor_functions():
        for t in ("wt", "t1"):
            f.add(f"  function {t}_new(a) result(r)")
            f.add("    integer, intent(in) :: a")
            f.add(f"    type({t}) :: r")
            f.add("    r%", U("wc" if t == "wt" else "c1", f"{t}::" + ("wc" if t == "wt" else "c1")), " = a")
            f.add(f"  end function {t}_new")

    if ctor == "before":
        ctor_interfaces()
    f.add("  type :: wt")
    f.add("    integer :: ", D("wc", "wt::wc"))
    f.add("  end type wt")
    for i in range(1, n + 1):
        f.add(f"  type{', extends(t' + str(i - 1) + ')' if i > 1 else ''} :: t{i}")
        f.add("    integer :: ", D(f"c{i}", f"t{i}::c{i}"))
        if i == 1:
            f.add("    type(wt) :: ", D(w, "t1::w"))
            f.add("    type(wt) :: ", D("wa", "t1::wa"), "(2)")
        if i == n and n > 1:
            f.add("    type(wt) :: ", D("wl", "tn::wl"))
        f.add(f"  end type t{i}")
    if ctor == "after":
        ctor_interfaces()
    decl = f"type(t{n}) :: v" if objkind == "type" else f"class(t{n}), allocatable :: v"

    def body(g, ind):
        g.add(ind + decl)
        g.add(ind + f"type(t{n}) :: va(3)")
        g.add(ind + "integer :: k")
        for i in range(1, n + 1):
            g.add(ind + "v%", U(f"c{i}", f"t{i}::c{i}"), " = 1")
            g.add(ind + "k = va(2)%", U(f"c{i}", f"t{i}::c{i}"))
        g.add(ind + "v%", U(w, "t1::w"), "%", U("wc", "wt::wc"), " = 2")
        g.add(ind + "k = va(1)%", U(w, "t1::w"), "%", U("wc", "wt::wc"), " + v%", U("c1", "t1::c1"))
        g.add(ind + "k = v%", U("wa", "t1::wa"), "(2)%", U("wc", "wt::wc"), " + va(3)%", U("wa", "t1::wa"), "(k)%", U("wc", "wt::wc"))
        if n > 1:
            g.add(ind + "k = v%", U("wl", "tn::wl"), "%", U("wc", "wt::wc"))

    if where == "inside":
        f.add("contains")
        f.add("  subroutine tuse()")
        body(f, "    ")
        f.add("  end subroutine tuse")
        if ctor:
            ctor_functions()
        f.add("end module tmod")
    else:
        if ctor:
            f.add("contains")
            ctor_functions()
        f.add("end module tmod")
        g = ws.file("tuser.f90")
        g.add("program tuser")
        g.add("  use tmod")
        g.add("  implicit none")
        body(g, "  ")
        g.add("end program tuser")
    return ws


# ==================================================================== include
def include_cases():
    for level in ("module", "procedure", "program"):
        for nested in (False, True):
            yield (level, nested)


def build_include(p):
    level, nested = p
    ws = Workspace()
    inc = ws.file("decl_inc.f90")
    inc.add("  integer :: ", D("from_inc", "inc::from_inc"))
    if nested:
        inc.add("  include 'decl_inc2.f90'")
        inc2 = ws.file("decl_inc2.f90")
        inc2.add("  real :: ", D("deeper", "inc2::deeper"))
    f = ws.file("includer.f90")

    def uses(ind):
        f.add(ind, U("from_inc", "inc::from_inc"), " = 1")
        if nested:
            f.add(ind, U("deeper", "inc2::deeper"), " = 2.0")

    if level == "program":
        f.add("program incp")
        f.add("  implicit none")
        f.add("  include 'decl_inc.f90'")
        uses("  ")
        f.add("end program incp")
    elif level == "module":
        f.add("module incm")
        f.add("  implicit none")
        f.add("  include 'decl_inc.f90'")
        f.add("contains")
        f.add("  subroutine s()")
        uses("    ")
        f.add("  end subroutine s")
        f.add("end module incm")
    else:
        f.add("module incm")
        f.add("  implicit none")
        f.add("contains")
        f.add("  subroutine s()")
        f.add("    include 'decl_inc.f90'")
        uses("    ")
        f.add("  end subroutine s")
        f.add("end module incm")
    return ws


def types_files_cases():
    names = ["tf_a_young.f90", "tf_b_mid.f90", "tf_c_old.f90", "tf_d_user.f90"]
    for order in itertools.permutations(range(4)):
        for objkind in ("type", "class"):
            yield (order, objkind)


def build_types_files(p):
    """EXTENDS chain of three types in three files (+ a user file); the start-up enumeration order is scripted."""
    order, objkind = p
    ws = Workspace()
    f = ws.file("tf_c_old.f90")
    f.add("module tf_old")
    f.add("  implicit none")
    f.add("  type :: fwt")
    f.add("    integer :: ", D("fwc", "fwt::fwc"))
    f.add("  end type fwt")
    f.add("  type :: ft1")
    f.add("    integer :: ", D("fc1", "ft1::fc1"))
    f.add("    type(fwt) :: ", D("fw", "ft1::fw"))
    f.add("  end type ft1")
    f.add("end module tf_old")
    f = ws.file("tf_b_mid.f90")
    f.add("module tf_mid")
    f.add("  use tf_old")
    f.add("  implicit none")
    f.add("  type, extends(ft1) :: ft2")
    f.add("    integer :: ", D("fc2", "ft2::fc2"))
    f.add("  end type ft2")
    f.add("end module tf_mid")
    f = ws.file("tf_a_young.f90")
    f.add("module tf_young")
    f.add("  use tf_mid")
    f.add("  implicit none")
    f.add("  type, extends(ft2) :: ft3")
    f.add("    integer :: ", D("fc3", "ft3::fc3"))
    f.add("  end type ft3")
    f.add("end module tf_young")
    g = ws.file("tf_d_user.f90")
    g.add("program tf_user")
    g.add("  use tf_young")
    g.add("  implicit none")
    g.add("  type(ft3) :: v" if objkind == "type" else "  class(ft3), allocatable :: v")
    g.add("  integer :: k")
    for i in (1, 2, 3):
        g.add("  v%", U(f"fc{i}", f"ft{i}::fc{i}"), " = 1")
    g.add("  k = v%", U("fw", "ft1::fw"), "%", U("fwc", "fwt::fwc"))
    g.add("end program tf_user")
    ws.file_order = [sorted(ws.files)[i] for i in order]
    return ws


# ================================================================== constructs
# ASSOCIATE names: the associate name itself, and member access through it, for selectors of growing shape
# (variable, component, array element, subscripts that contain calls / array elements themselves, two levels of
# subscripted components).  Selector text is built from U tokens, so every name in it is a checked use site too.
def _sel(kind):
    mesh, cells, first, order, k = (U("mesh", "v::mesh"), U("cells", "mesh_t::cells"), U("first", "mesh_t::first"),
                                    U("order", "v::order"), U("k", "v::k"))
    inner = U("inner", "cell_t::inner")
    return {
        "var": ([U("onecell", "v::onecell")], "cell"),
        "component": ([mesh, "%", first], "cell"),
        "element": ([mesh, "%", cells, "(", k, ")"], "cell"),
        "element_of_var": ([U("cellarr", "v::cellarr"), "(2)"], "cell"),
        "nested_index": ([mesh, "%", cells, "(", order, "(", k, "))"], "cell"),
        "call_index": ([mesh, "%", cells, "(max(", k, ", 1))"], "cell"),
        "double_nested_index": ([mesh, "%", cells, "(", order, "(", U("order", "v::order"), "(", U("k", "v::k"), ")))"], "cell"),
        "two_subscripts": ([mesh, "%", cells, "(", k, ")%", inner, "(2)"], "leaf"),
        "whole": ([mesh], "mesh"),
    }[kind]


CONSTRUCT_SELECTORS = ["var", "component", "element", "element_of_var", "nested_index", "call_index", "double_nested_index",
                       "two_subscripts", "whole"]


def constructs_cases():
    for sel in CONSTRUCT_SELECTORS:
        for where in ("program", "module_procedure"):
            for second in (False, True):
                yield (sel, where, second)


def build_constructs(p):
    sel, where, second = p
    ws = Workspace()
    f = ws.file("gmod.f90")
    f.add("module gmod")
    f.add("  implicit none")
    f.add("  type :: leaf_t")
    f.add("    real :: ", D("lval", "leaf_t::lval"))
    f.add("  end type leaf_t")
    f.add("  type :: cell_t")
    f.add("    real :: ", D("vol", "cell_t::vol"))
    f.add("    type(leaf_t) :: ", D("inner", "cell_t::inner"), "(3)")
    f.add("  end type cell_t")
    f.add("  type :: mesh_t")
    f.add("    type(cell_t) :: ", D("first", "mesh_t::first"))
    f.add("    type(cell_t) :: ", D("cells", "mesh_t::cells"), "(10)")
    f.add("  end type mesh_t")

    def body(g, ind):
        g.add(ind + "type(mesh_t) :: ", D("mesh", "v::mesh"))
        g.add(ind + "type(cell_t) :: ", D("onecell", "v::onecell"))
        g.add(ind + "type(cell_t) :: ", D("cellarr", "v::cellarr"), "(4)")
        g.add(ind + "integer :: ", D("order", "v::order"), "(10)")
        g.add(ind + "integer :: ", D("k", "v::k"))
        g.add(ind + "real :: ", D("x", "v::x"))
        toks, typ = _sel(sel)
        extra = [", ", D("other", "a::other"), " => ", U("onecell", "v::onecell")] if second else []
        g.add(ind + "associate (", D("c", "a::c"), " => ", *toks, *extra, ")")
        member = {"cell": [U("vol", "cell_t::vol")], "leaf": [U("lval", "leaf_t::lval")],
                  "mesh": [U("first", "mesh_t::first"), "%", U("vol", "cell_t::vol")]}[typ]
        g.add(ind + "  ", U("x", "v::x"), " = ", U("c", "a::c"), "%", *member)
        if second:
            g.add(ind + "  ", U("x", "v::x"), " = ", U("other", "a::other"), "%", U("vol", "cell_t::vol"))
        g.add(ind + "end associate")

    if where == "module_procedure":
        f.add("contains")
        f.add("  subroutine guse()")
        body(f, "    ")
        f.add("  end subroutine guse")
        f.add("end module gmod")
    else:
        f.add("end module gmod")
        g = ws.file("guser.f90")
        g.add("program guser")
        g.add("  use gmod")
        g.add("  implicit none")
        body(g, "  ")
        g.add("end program guser")
    return ws


# ================================================================ nested_close
# Which scope a line belongs to when several scopes close back to back: a BLOCK that re-declares a name of its host
# contains 1-3 nested constructs whose END statements directly precede END BLOCK (or not); the uses after END BLOCK
# belong to the host again.
NC_KINDS = {"do": ("do i = 1, 2", "end do"), "if": ("if (n > 0) then", "end if"), "associate": ("associate (z => n)", "end associate"),
            "block": ("block", "end block"), "select": ("select case (n)\n@case (1)", "end select")}


def nested_close_cases():
    kinds = list(NC_KINDS)
    for depth in (1, 2, 3):
        for combo in itertools.product(kinds, repeat=depth):
            if depth == 3 and len(set(combo)) < 2:
                continue
            for trailing in (False, True):
                yield (combo, trailing)


def build_nested_close(p):
    combo, trailing = p
    ws = Workspace()
    f = ws.file("nc.f90")
    f.add("subroutine ncs(n)")
    f.add("  implicit none")
    f.add("  integer :: n, i0, i1, i2")
    f.add("  integer :: ", D("k", "host::k"))
    f.add("  ", U("k", "host::k"), " = 1")
    f.add("  block")
    f.add("    integer :: ", D("k", "blk::k"))
    f.add("    ", U("k", "blk::k"), " = 2")
    ind = "    "
    for lvl, kd in enumerate(combo):
        for part in NC_KINDS[kd][0].split("\n"):
            f.add(ind + part.replace("@", "").replace("do i =", f"do i{lvl} ="))
        ind += "  "
        f.add(ind, U("k", "blk::k"), " = ", U("k", "blk::k"), " + 1")
    for kd in reversed(combo):
        ind = ind[:-2]
        f.add(ind + NC_KINDS[kd][1])
    if trailing:
        f.add("    ", U("k", "blk::k"), " = 3")
    f.add("  end block")
    f.add("  ", U("k", "host::k"), " = ", U("k", "host::k"), " + n")
    f.add("  if (n > 1) ", U("k", "host::k"), " = 0")
    f.add("end subroutine ncs")
    return ws


# ============================================================ declarations on continuation lines
# The declared name stands on a continuation line, which may begin with the optional leading '&' at some indent: the
# answer is the range of the name in the text of that line.
def continued_decl_cases():
    for lead in ("none", "amp", "amp_blanks", "amp_tight"):
        for indent in (0, 2, 9):
            for stmt in ("integer", "real_dim", "dummy"):
                yield (lead, indent, stmt)


def build_continued_decl(p):
    lead, indent, stmt = p
    ws = Workspace()
    f = ws.file("cd.f90")
    pre = " " * indent + {"none": "", "amp": "& ", "amp_blanks": "&     ", "amp_tight": "&"}[lead]
    if stmt == "dummy":
        f.add("subroutine cds(", U("qarg", "cds::qarg"), ", ", U("qthird", "cds::qthird"), ")")
    else:
        f.add("subroutine cds(qn)")
    f.add("  implicit none")
    if stmt != "dummy":
        f.add("  integer :: qn")
    head = {"integer": "  integer :: qfirst, &", "real_dim": "  real, dimension(3) :: qfirst, &", "dummy": "  integer, intent(in) :: &"}[stmt]
    f.add(head)
    name, ent = ("qarg", "cds::qarg") if stmt == "dummy" else ("qsecond", "cds::qsecond")
    f.add(pre, D(name, ent), ", &")
    f.add(pre, D("qthird", "cds::qthird"))
    f.add("  print *, ", U(name, ent), ", ", U("qthird", "cds::qthird"))
    f.add("end subroutine cds")
    return ws


# ============================================================ host association past a restricted USE
# The inner scope has its own `use m, only: ...` that does not name x; its host accesses m without restriction (or
# with an ONLY list naming x): x in the inner scope is m's x, through the host.
def host_only_cases():
    for inner_kind in ("internal_procedure", "module_procedure", "block"):
        for inner_use in ("only_other", "only_none", "only_rename_other"):
            for host_use in ("all", "only_x"):
                for what in ("variable", "type_and_component"):
                    yield (inner_kind, inner_use, host_use, what)


def build_host_only(p):
    inner_kind, inner_use, host_use, what = p
    ws = Workspace()
    m = ws.file("ho_lib.f90")
    m.add("module holib")
    m.add("  implicit none")
    m.add("  integer :: ", D("hox", "holib::hox"))
    m.add("  integer :: ", D("hoother", "holib::hoother"))
    m.add("  type :: ", D("hot", "holib::hot"))
    m.add("    integer :: ", D("hocomp", "holib::hot%hocomp"))
    m.add("  end type hot")
    m.add("end module holib")
    f = ws.file("ho_user.f90")
    inner = {"only_other": "use holib, only: hoother", "only_none": "use holib, only:", "only_rename_other": "use holib, only: horen => hoother"}[inner_use]
    host = {"all": "use holib", "only_x": "use holib, only: hox, hot"}[host_use]

    def body(ind):
        if inner_kind != "block":
            f.add(ind + inner)
        if what == "variable":
            f.add(ind, U("hox", "holib::hox"), " = ", U("hox", "holib::hox"), " + 1")
        else:
            f.add(ind + "type(", U("hot", "holib::hot"), ") :: holocal")
            f.add(ind + "holocal%", U("hocomp", "holib::hot%hocomp"), " = 2")

    if inner_kind == "module_procedure":
        f.add("module houser")
        f.add("  " + host)
        f.add("  implicit none")
        f.add("contains")
        f.add("  subroutine horun()")
        body("    ")
        f.add("  end subroutine horun")
        f.add("end module houser")
    else:
        f.add("subroutine hohost()")
        f.add("  " + host)
        f.add("  implicit none")
        if inner_kind == "block":
            f.add("  block")
            f.add("    " + inner.replace("use holib", "use holib"))
            body("    ")
            f.add("  end block")
            f.add("end subroutine hohost")
        else:
            f.add("  call hoinner()")
            f.add("contains")
            f.add("  subroutine hoinner()")
            body("    ")
            f.add("  end subroutine hoinner")
            f.add("end subroutine hohost")
    return ws


# ============================================================ rename without ONLY
# `use m, local => remote` (a rename list without ONLY): everything public of m is accessible, remote under the name local.
def rename_all_cases():
    for where in ("program", "module_procedure"):
        for second in (False, True):
            yield (where, second)


def build_rename_all(p):
    where, second = p
    ws = Workspace()
    f = ws.file("rm.f90")
    f.add("module rm")
    f.add("  implicit none")
    f.add("  integer :: ", D("remote_a", "RM::a"))
    f.add("  integer :: ", D("remote_b", "RM::b"))
    f.add("  integer :: ", D("plain_c", "RM::c"))
    f.add("end module rm")
    g = ws.file("ru.f90")
    ren = "local_a => remote_a" + (", local_b => remote_b" if second else "")
    body = ["    k = ", U("local_a", "RM::a"), " + ", U("plain_c", "RM::c")] + ([" + ", U("local_b", "RM::b")] if second else [" + ", U("remote_b", "RM::b")])
    if where == "program":
        g.add("program ru")
        g.add("  use rm, " + ren)
        g.add("  implicit none")
        g.add("  integer :: k")
        g.add(*["  " + body[0][2:]] + body[1:])
        g.add("end program ru")
    else:
        g.add("module ruser")
        g.add("  implicit none")
        g.add("contains")
        g.add("  subroutine rs()")
        g.add("    use rm, " + ren)
        g.add("    integer :: k")
        g.add(*body)
        g.add("  end subroutine rs")
        g.add("end module ruser")
    return ws


BUILDERS = {"rename_without_only": build_rename_all, "nested_close": build_nested_close, "shadow": build_shadow, "usegraph": build_usegraph, "types": build_types, "include": build_include,
            "types_files": build_types_files, "constructs": build_constructs, "continued_decl": build_continued_decl, "host_only": build_host_only}


# ================================================================== execution
def gfortran_ok(ws: Workspace, order):
    sc = worker_scratch("c05")
    d = os.path.join(sc.path, "gf")
    os.makedirs(d, exist_ok=True)
    for n, f in ws.files.items():
        with open(os.path.join(d, n), "w") as fh:
            fh.write(f.text)
    ok = True
    for n in order:
        r = subprocess.run(["gfortran", "-fsyntax-only", "-std=f2008", "-J", d, "-I", d, n], cwd=d, capture_output=True, text=True)
        if r.returncode != 0:
            ok = False
            break
    import shutil

    shutil.rmtree(d, ignore_errors=True)
    return ok


def compile_order(ws):
    names = list(ws.files)
    mods = sorted(n for n in names if n.startswith("um")) + [n for n in names if n in ("tmod.f90",)] + \
        [n for n in ("tf_c_old.f90", "tf_b_mid.f90", "tf_a_young.f90") if n in names]
    rest = [n for n in names if n not in mods and not n.startswith("decl_inc")]
    return mods + rest


def run_case(job, acc: Acc):
    fam, p = job
    try:
        ws = BUILDERS[fam](p)
    except Invalid:
        acc.count("not_admitted")
        return
    sc = worker_scratch("c05")
    sc.wipe()
    root = os.path.realpath(os.path.join(sc.path, "w"))
    os.makedirs(root)
    ws.write(root)
    s = Server([])
    order = getattr(ws, "file_order", None)
    if order:
        real = s.srv._get_source_files

        def scripted():
            rank = {n: i for i, n in enumerate(order)}
            return sorted(real(), key=lambda q: rank[os.path.basename(q)])

        s.srv._get_source_files = scripted
    s.initialize(root)
    uses = [o for o in ws.occurrences() if not o.decl and o.ent is not None]
    bad = []
    # two passes in the one session: an answer must not depend on which sites were asked before
    for o in uses + uses:
        want = ws.decl_of(o.ent)
        path = os.path.join(root, o.file)
        r = s.result("textDocument/definition", Server.tdpp(path, o.line, (o.col + o.end) // 2))
        acc.count("use_sites")
        if want is None:
            raise core.HarnessError(f"no unique declaration for {o.ent} in {fam} {p}")
        exp = (want.file, want.line, want.col, want.end)
        got = None
        if isinstance(r, dict) and "uri" in r:
            got = (os.path.basename(r["uri"]), r["range"]["start"]["line"], r["range"]["start"]["character"], r["range"]["end"]["character"])
        if got != exp:
            other = None
            if got is not None:
                hit = [d for d in ws.occurrences() if d.decl and (d.file, d.line) == (got[0], got[1]) and d.col <= got[2] <= d.end]
                other = hit[0].ent if hit else "not_a_declaration"
            obs = "none" if got is None else ("wrong_declaration" if other not in (None, o.ent) else "range")
            bad.append((o, exp, got, obs, other))
    acc.case(nontrivial_key=(fam, repr(p)) if uses else None, outcome=(fam, len(uses), len(bad)))
    if bad and not gfortran_ok(ws, compile_order(ws)):
        acc.count("rejected_by_gfortran")
        raise core.HarnessError(f"generator produced a program gfortran rejects: {fam} {p}\n" + "\n".join(f.text for f in ws.files.values()))
    for o, exp, got, obs, other in bad[:3]:
        tags = {"family": fam, "obs": obs, "name": o.name, "expected_entity": str(o.ent), "got_entity": str(other)}
        tags.update(_features(fam, p))
        tags["cause"] = _cause(fam, p, o, other)
        acc.violation(Violation(fam, tags, {"family": fam, "params": repr(p), "files": {n: f.text for n, f in ws.files.items()}},
                                {"entity": o.ent, "location": exp}, {"location": got, "entity": other},
                                what=f"{fam} {p}: use of {o.name} at {o.file}:{o.line}:{o.col} -> {got}, expected {exp}"))
    if len(acc.samples) < 2 and uses:
        acc.sample({"family": fam, "params": repr(p), "files": {n: f.text for n, f in ws.files.items()}})


def _user_names(mods, ev, uedges, relax_defaults=False):
    k = len(mods)
    pairs = [(i, j) for i in range(k) for j in range(i)]
    m2 = tuple((d, "public" if relax_defaults else df) for (d, df) in mods)
    try:
        _, exp_ = resolve_modules(m2, dict(zip(pairs, ev)))
    except Invalid:
        return {}
    names = {}
    for j, spec in enumerate(uedges):
        ex = exp_[j]
        if spec == "all":
            for n, e in ex.items():
                names[n] = e if names.get(n, e) == e else AMBIG
        elif spec == "only_x" and "x" in ex:
            names["x"] = ex["x"]
        elif spec == "only_y" and "x" in ex:
            names["y"] = ex["x"]
    return names


def _reach(mods, ev, relaxed):
    """Per module: the set of x entities it exports (its own and the ones it passes on), under the real
    accessibility rules or (relaxed) ignoring default PRIVATE of intermediate modules."""
    k = len(mods)
    pairs = [(i, j) for i in range(k) for j in range(i)]
    edges = dict(zip(pairs, ev))
    out = []
    for i, (decl, default) in enumerate(mods):
        r = set()
        own = {f"M{i}::x"} if decl == "plain" else set()
        passed = set()
        for j in range(i):
            if edges.get((i, j)) in ("all", "only_x"):
                passed |= out[j]
        if relaxed or default in ("public", "private_pubx"):
            r = own | passed
        out.append(r)
    return out


def _cause(fam, p, o, other):
    """Why the reference resolver and the server may disagree (used by known-finding matchers)."""
    if fam != "usegraph":
        return ""
    mods, ev, uedges, ukind = p
    strict, relaxed = _reach(mods, ev, False), _reach(mods, ev, True)
    ux_strict = set().union(*[strict[j] for j, sp in enumerate(uedges) if sp in ("all", "only_x")] or [set()])
    ux_relaxed = set().union(*[relaxed[j] for j, sp in enumerate(uedges) if sp in ("all", "only_x")] or [set()])
    uy = set().union(*[strict[j] for j, sp in enumerate(uedges) if sp == "only_y"] or [set()])
    if o.name == "y" and "only_y" in ev and "only_y" not in uedges:
        return "rename_made_in_intermediate_module"
    if o.name == "y" and "only_y" in uedges and (o.ent in ux_relaxed or (other not in (None, "not_a_declaration") and other in ux_relaxed)):
        # the renamed entity (or the wrongly chosen one) is also reached by another, unrenamed path -
        # possibly through a default-PRIVATE intermediary, cf. D05a
        return "rename_lost_when_entity_also_reached_unrenamed"
    uy_relaxed = set().union(*[relaxed[j] for j, sp in enumerate(uedges) if sp == "only_y"] or [set()])
    if o.name == "y" and "only_y" in uedges and other not in (None, "not_a_declaration") and other in uy_relaxed and other not in uy:
        # the rename picked, behind the renamed module, an x that module only reaches through a default-PRIVATE intermediary
        return "default_private_of_intermediate_module_ignored"
    if o.name == "x" and "only_y" in uedges and o.ent in uy:
        return "unrenamed_name_lost_when_entity_also_renamed"
    if o.name == "x" and other in ux_relaxed and other not in ux_strict:
        return "default_private_of_intermediate_module_ignored"
    return ""


def _features(fam, p):
    if fam == "usegraph":
        mods, ev, uedges, ukind = p
        return {"user_kind": ukind,
                "intermediate_private_default": any(d != "public" for (_, d) in mods[1:]) or (len(mods) > 1 and mods[0][1] != "public" and False),
                "has_rename": "only_y" in ev or "only_y" in uedges,
                "user_edges": ",".join(str(e) for e in uedges), "module_edges": ",".join(str(e) for e in ev),
                "defaults": ",".join(d for (_, d) in mods), "decls": ",".join(str(d) for (d, _) in mods)}
    if fam == "shadow":
        return {"shadow": ",".join(str(x) for x in p)}
    if fam == "continued_decl":
        return {"lead": p[0], "indent": p[1], "stmt": p[2]}
    if fam == "host_only":
        return {"inner_kind": p[0], "inner_use": p[1], "host_use": p[2], "what": p[3]}
    if fam == "constructs":
        return {"selector": p[0], "where": p[1], "two_bindings": p[2]}
    if fam == "nested_close":
        return {"inner": ",".join(p[0]), "trailing_statement": p[1]}
    return {"params": repr(p)}


def jobs(quick):
    for p in shadow_cases():
        yield ("shadow", p)
    for p in rename_all_cases():
        yield ("rename_without_only", p)
    for p in types_cases():
        yield ("types", p)
    for p in include_cases():
        yield ("include", p)
    for p in types_files_cases():
        yield ("types_files", p)
    for p in constructs_cases():
        yield ("constructs", p)
    for p in nested_close_cases():
        yield ("nested_close", p)
    for p in continued_decl_cases():
        yield ("continued_decl", p)
    for p in host_only_cases():
        yield ("host_only", p)
    for p in usegraph_cases(2, reduced=0):
        yield ("usegraph", p)
    for p in usegraph_cases(3, reduced=(1 if quick else 2)):
        yield ("usegraph", p)


def main(ctx):
    ctx.rule = ("shadow: every combination of declaration kinds at 4 nesting levels x ASSOCIATE x {module, program}; usegraph: every "
                "admitted combination of 2 modules (declares x {no, plain, private}; default {public, private, private + public :: "
                "x}) x module edge x user edges {none, use, only: x, only: y => x, only: z} x 2 using scopes (thorough: also 3 "
                "modules with reduced alphabets); types: EXTENDS chain length 1..3 x type/class x inside/outside; include: 3 levels "
                "x nested. Every use site is queried. Non-trivial = workspace with at least one use site; distinct by parameters.")
    ctx.assumptions = ["a workspace is admitted only if the reference resolver on the model finds exactly one accessible "
                       "declaration per use site; if a violating workspace is rejected by gfortran the check aborts as broken",
                       "the declaration of a dummy argument / function result is its type declaration statement"]
    acc = core.pmap(run_case, jobs(ctx.quick), chunk=16, budget_s=120, label="C05")
    ctx.add_family("definition", acc)


def replay(rec):
    c = rec["case"]
    acc = Acc()
    run_case((c["family"], eval(c["params"])), acc)
    return [v.to_json("C05") for v in acc.violations] or None
