"""C11 — hover and signature help restate the declaration and its documentation.

Bounded-exhaustive enumeration:
  declarations  type x kind/len selector x ordered attribute lists (<= N) x entity form
                (scalar, entity-level dimension, character length, initialiser, nested
                parentheses in a PARAMETER value, middle of three entities) x with/without
                '::' x documentation placement (none, '!>' block before, '!<' trailing, '!!'
                block after, two-line blocks, blank line in between, a '!>' block of the
                *next* entity right after).  The hover text is parsed back
                (TYPE[selector][, ATTR...] :: name [= value]) and compared with the model.
  procedures    subroutines / functions with 0-3 dummies (optional, documented individually,
                result clause): hover lists the dummies in order, each with its declaration
  signature     calls with the cursor at every column of the argument list: positional and
                keyword arguments, nested calls, parenthesised sub-expressions, a string
                argument containing ',' and '(': label, parameter list and activeParameter
"""
from __future__ import annotations

import itertools
import json
import os
import re

from .. import core
from ..core import Acc, Violation
from ..driver import Server, worker_scratch

LEVEL = "exploration"

# ---------------------------------------------------------------- declarations
TYPES = {
    "integer": ["", "(4)", "(kind=8)", "( kind = 8 )", "*8"],
    "real": ["", "(8)", "(kind=8)", "*8", "(kind=selected_real_kind(6, 37))", "(kind=kind(1.0d0))"],
    "double precision": [""],
    "complex": ["", "(kind=8)"],
    "logical": ["", "(kind=4)"],
    "character": ["", "(len=10)", "(10)", "*10", "(len=10, kind=1)"],
    "type(tt)": [""],
}
DUMMY_TYPES = {"character": ["(len=*)", "*(*)"], "class(tt)": [""], "integer": [""], "real": ["(8)"]}
ATTRS = ["allocatable", "pointer", "target", "save", "dimension(3)", "dimension(:, :)", "public", "private", "contiguous", "volatile", "protected",
         "asynchronous"]
DUMMY_ATTRS = ["intent(in)", "intent(out)", "intent(in out)", "intent(inout)", "optional", "target", "dimension(:)", "contiguous", "value", "volatile"]
CONFLICT = [{"allocatable", "pointer"}, {"public", "private"}, {"dimension(3)", "dimension(:, :)"}, {"target", "pointer"},
            {"intent(in)", "intent(out)"}, {"intent(in)", "intent(in out)"}, {"intent(out)", "intent(in out)"}, {"intent(in)", "intent(inout)"},
            {"intent(out)", "intent(inout)"}, {"intent(in out)", "intent(inout)"}, {"allocatable", "dimension(3)"}, {"pointer", "dimension(3)"},
            {"value", "intent(out)"}, {"value", "intent(in out)"}, {"value", "intent(inout)"}, {"value", "dimension(:)"}, {"value", "volatile"},
            {"value", "optional"}, {"value", "target"}, {"value", "contiguous"}]
DOCS = ["none", "pre", "pre2", "trail", "post", "post2", "pre_blank", "next_pre", "post_next_pre", "post_bang_next_pre", "post_blank_next_pre",
        "trail_next_pre", "trail_bang_next_pre"]


def legal(attrs):
    s = set(attrs)
    if any(c <= s for c in CONFLICT):
        return False
    if "contiguous" in s and not ({"pointer", "dimension(:, :)"} <= s or {"dimension(:)"} <= s):
        return False
    if "dimension(:, :)" in s and not (s & {"allocatable", "pointer"}):
        return False
    return True


def attr_lists(pool, maxn):
    yield ()
    for n in range(1, maxn + 1):
        for combo in itertools.permutations(pool, n):
            if legal(combo):
                yield combo


def norm(s):
    return re.sub(r"\s+", "", s).upper()


def decl_cases(maxattrs):
    # module-level variables
    for typ, sels in TYPES.items():
        for sel in sels:
            for attrs in attr_lists(ATTRS, maxattrs):
                ents = ["x"]
                if attrs in (("dimension(3)",), ("dimension(3)", "target"), ("save", "dimension(3)")) and typ in ("integer", "real") and sel == "":
                    ents += ["x(5)", "a0, x(5), a2"]      # the entity's own array specification replaces the attribute's
                if not attrs:
                    ents += ["x(3)", "a0, x, a2", "x = 1", "x(2) = [1, 2]"] if typ == "integer" and sel == "" else []
                    if typ == "character" and sel in ("", "(len=10)"):
                        ents += ["x*5", "x(2)*5", "a0 = 'w!', x", "x = 'a!b'", 'a0 = "!", x']
                for ent in ents:
                    for dcolon in ((True, False) if not attrs and "=" not in ent else (True,)):
                        for doc in (DOCS if (not attrs and ent == "x" and sel == "") else ("none", "pre", "trail", "post")):
                            yield ("var", typ, sel, attrs, ent, dcolon, doc)
    # parameters with values
    for val in ["1", "2*(3+1)", "(1 + 2) * 3", "selected_int_kind(9)", "[1, 2, 3]", "'a(b'", "3.0d0**2", "'a!b'"]:
        typ = "character(len=3)" if val.startswith("'") else ("real(8)" if "d0" in val else "integer")
        ent = "x(3) = " + val if val.startswith("[") else "x = " + val
        for attrs in (("parameter",), ("parameter", "public"), ("private", "parameter")):
            yield ("param", typ, "", attrs, ent, True, "none")
    # ... and an entity-level character length between the name and the value
    for ent in ("x*5 = 'hello'", "x(2)*3 = ['abc', 'def']", "a0*2 = 'ab', x*5 = 'hello'"):
        yield ("param", "character", "", ("parameter",), ent, True, "none")
    # dummy arguments
    for typ, sels in DUMMY_TYPES.items():
        for sel in sels:
            for attrs in attr_lists(DUMMY_ATTRS, maxattrs):
                for doc in ("none", "trail", "pre") + (("exec_trail", "exec_post") if not attrs and sel == sels[0] else ()):
                    yield ("dummy", typ, sel, attrs, "x", True, doc)


def render_decl(case):
    kind, typ, sel, attrs, ent, dcolon, doc = case
    L = []
    L.append("module hm")
    L.append("  implicit none")
    L.append("  type :: tt")
    L.append("    integer :: c")
    L.append("  end type tt")
    pre = []
    if kind == "dummy":
        L.append("contains")
        L.append("  subroutine host(x)")
    ind = "    " if kind == "dummy" else "  "
    doc_lines = []
    if doc in ("pre", "pre2", "pre_blank"):
        L.append(ind + "!> first doc line of x")
        doc_lines.append("first doc line of x")
        if doc == "pre2":
            L.append(ind + "!! second doc line of x")
            doc_lines.append("second doc line of x")
        if doc == "pre_blank":
            L.append("")
    head = typ + sel + "".join(", " + a for a in attrs)
    stmt = ind + head + (" :: " if dcolon else " ") + ent
    if doc == "trail":
        stmt += " !< trailing doc of x"
        doc_lines.append("trailing doc of x")
    decl_line = len(L)
    L.append(stmt)
    if doc in ("trail_next_pre", "trail_bang_next_pre"):
        L[decl_line] += " !< trailing doc of x"
        doc_lines.append("trailing doc of x")
    if doc in ("post", "post2", "post_next_pre", "post_bang_next_pre", "post_blank_next_pre"):
        L.append(ind + "!! after doc of x")
        doc_lines.append("after doc of x")
        if doc == "post2":
            L.append(ind + "!! more after doc of x")
            doc_lines.append("more after doc of x")
    if doc in ("post_bang_next_pre", "trail_bang_next_pre"):
        L.append(ind + "!")
    if doc == "post_blank_next_pre":
        L.append("")
    if doc.endswith("next_pre"):
        L.append(ind + "!> this documents the NEXT entity only")
    L.append(ind + "integer :: following_entity")
    if doc.startswith("exec_"):
        # documentation comments after an *executable* statement document no entity at all
        L.append(ind + "following_entity = 1" + (" !< a remark on an executable statement" if doc == "exec_trail" else ""))
        if doc == "exec_post":
            L.append(ind + "!! a remark after an executable statement")
        L.append(ind + "following_entity = 2")
    if kind == "dummy":
        L.append("  end subroutine host")
    L.append("end module hm")
    col = L[decl_line].index(" x", len(ind) + len(typ)) + 1 if " x" in L[decl_line][len(ind) + len(typ):] else L[decl_line].rindex("x")
    # position of the entity name x: the first standalone x after the type/attributes part
    m = None
    for m in re.finditer(r"(?<![\w%])x(?![\w])", L[decl_line]):
        if m.start() >= len(ind) + len(head):
            break
    col = m.start()
    return "\n".join(L) + "\n", decl_line, col, doc_lines


def expected_decl(case):
    kind, typ, sel, attrs, ent, dcolon, doc = case
    base = typ.split("(")[0].strip().upper() if not typ.startswith(("type(", "class(")) else typ.upper()
    sel_full = sel
    if "(" in typ and not typ.startswith(("type(", "class(")):
        sel_full = typ[typ.index("("):] + sel
    want_attrs = {norm(a).replace("INTENT(INOUT)", "INTENT(INOUT)") for a in attrs}
    items, depth, quote, cur = [], 0, "", ""
    for ch in ent:                        # the entity x within the (possibly longer) entity list
        if quote:
            quote = "" if ch == quote else quote
        elif ch in "'\"":
            quote = ch
        elif ch in "([":
            depth += 1
        elif ch in ")]":
            depth -= 1
        elif ch == "," and depth == 0:
            items.append(cur)
            cur = ""
            continue
        cur += ch
    items.append(cur)
    xent = next((i for i in items if re.match(r"\s*x\b", i)), ent)
    m = re.match(r"\s*x\s*(\([^)]*\))?\s*(\*\s*\d+)?\s*(=\s*(.*))?$", xent)
    dims = charlen = value = None
    if m:
        dims, charlen, value = m.group(1), m.group(2), m.group(4)
    if dims:
        want_attrs = {a for a in want_attrs if not a.startswith("DIMENSION")}
        want_attrs.add(norm("DIMENSION" + dims))
    type_str = norm(base + sel_full + (charlen or ""))
    return type_str, want_attrs, (norm(value) if (value is not None and "parameter" in attrs) else None)


HOVER_RE = re.compile(r"^```\w+\n(?P<code>.*?)\n```(?:\n-----\n(?P<docs>.*))?$", re.S)


def parse_hover(value):
    m = HOVER_RE.match(value)
    if not m:
        return None
    code = m.group("code").split("\n")[0]
    if "::" not in code:
        return None
    left, right = code.split("::", 1)
    parts, depth, cur = [], 0, ""
    for ch in left:
        if ch == "," and depth == 0:
            parts.append(cur)
            cur = ""
            continue
        depth += ch == "("
        depth -= ch == ")"
        cur += ch
    parts.append(cur)
    name, _, val = right.partition("=")
    return {"type": norm(parts[0]), "attrs": [norm(p) for p in parts[1:]], "name": name.strip(), "value": norm(val) if val.strip() else None,
            "docs": (m.group("docs") or "")}


def _intent_norm(s):
    return s.replace("INTENT(INOUT)", "INTENT(IN OUT)".replace(" ", ""))


def _several_entities(ent):
    """Does the entity list declare more than one entity (commas outside parentheses, brackets and literals)?"""
    depth, quote = 0, ""
    for ch in ent:
        if quote:
            quote = "" if ch == quote else quote
        elif ch in "'\"":
            quote = ch
        elif ch in "([":
            depth += 1
        elif ch in ")]":
            depth -= 1
        elif ch == "," and depth == 0:
            return True
    return False


def decl_case(case, acc: Acc):
    text, ln, col, doc_lines = render_decl(case)
    sc = worker_scratch("c11")
    sc.wipe()
    root = os.path.realpath(sc.path)
    path = os.path.join(root, "h.f90")
    with open(path, "w") as f:
        f.write(text)
    s = Server([])
    s.initialize(root)
    r = s.result("textDocument/hover", Server.tdpp(path, ln, col))
    kind, typ, sel, attrs, ent, dcolon, doc = case
    acc.case(nontrivial_key=repr(case), outcome=(kind, typ, len(attrs), doc))
    tags0 = {"family": "declarations", "kind": kind, "type": typ.split("(")[0], "selector": sel, "entity": re.sub(r"\d", "n", ent), "dcolon": dcolon, "doc": doc,
             "nattrs": len(attrs)}
    cs = {"case": repr(case), "text": text, "line": ln, "character": col}
    if not (isinstance(r, dict) and isinstance(r.get("contents"), dict)):
        acc.violation(Violation("declarations", {**tags0, "obs": "no_hover"}, cs, "a hover", r, what=f"{case}: no hover"))
        return
    h = parse_hover(r["contents"]["value"])
    if h is None:
        acc.violation(Violation("declarations", {**tags0, "obs": "unparsable_hover"}, cs, "TYPE[, ATTR] :: name", r["contents"]["value"][:200], what=f"{case}"))
        return
    wtype, wattrs, wval = expected_decl(case)
    problems = []
    if h["name"].lower() != "x":
        problems.append(("name", "x", h["name"]))
    # an entity-level character length (x*5) overrides the type-level one: both orders of restating it are accepted
    alt = None
    mm = re.match(r"^(CHARACTER)(\(.*\))(\*\d+)$", wtype)
    if mm:
        alt = mm.group(1) + mm.group(3) + mm.group(2)
    if h["type"] != wtype and h["type"] != alt:
        problems.append(("type_or_selector", wtype, h["type"]))
    # a multiset: an attribute stated once is restated once
    if sorted(_intent_norm(a) for a in h["attrs"]) != sorted(_intent_norm(a) for a in wattrs):
        problems.append(("attributes", sorted(wattrs), sorted(h["attrs"])))
    if wval is not None and h["value"] != wval:
        problems.append(("parameter_value", wval, h["value"]))
    got_doc = re.sub(r"\s+", " ", h["docs"]).strip()
    want_doc = " ".join(doc_lines)
    # a comment on a statement that declares several entities is not attributable to one of them
    if got_doc != want_doc and not _several_entities(ent):
        problems.append(("documentation", want_doc, got_doc))
    if doc.startswith("exec_"):
        fl = [i for i, t in enumerate(text.split("\n")) if "following_entity" in t][0]
        r2 = s.result("textDocument/hover", Server.tdpp(path, fl, text.split("\n")[fl].index("following_entity") + 3))
        h2 = parse_hover(r2["contents"]["value"]) if isinstance(r2, dict) and isinstance(r2.get("contents"), dict) else None
        got2 = re.sub(r"\s+", " ", h2["docs"]).strip() if h2 else None
        if got2:
            problems.append(("documentation_after_executable_statement", "", got2))
    if doc.endswith("next_pre"):
        # ... and the block in front of the next entity belongs to that entity
        fl = [i for i, t in enumerate(text.split("\n")) if "following_entity" in t][0]
        r2 = s.result("textDocument/hover", Server.tdpp(path, fl, text.split("\n")[fl].index("following_entity") + 3))
        h2 = parse_hover(r2["contents"]["value"]) if isinstance(r2, dict) and isinstance(r2.get("contents"), dict) else None
        got2 = re.sub(r"\s+", " ", h2["docs"]).strip() if h2 else None
        if got2 != "this documents the NEXT entity only":
            problems.append(("documentation_of_next_entity", "this documents the NEXT entity only", got2))
    for what, w, g in problems:
        acc.violation(Violation("declarations", {**tags0, "obs": what}, cs, w, g, what=f"{case}: {what}: expected {w!r}, got {g!r}"))
    if len(acc.samples) < 2:
        acc.sample({"declaration": text.split(chr(10))[ln], "hover": r["contents"]["value"]})


# -------------------------------------------------------------------- siblings
# Several entities declared by one statement: each hover restates the statement's type and attributes plus the
# entity's own dimensions, and nothing a *separate* statement (EXTERNAL f) says about a sibling.
SIB_TYPES = ["real", "integer", "real(8)"]


def sibling_cases(full):
    for typ in SIB_TYPES:
        for n in (2, 3):
            for dims in range(-1, n):               # which entity has its own (3); -1 = none
                for ext in range(-1, n):            # which entity a separate EXTERNAL statement names; -1 = none
                    if ext == dims and ext >= 0:
                        continue
                    for ext_first in ((False, True) if ext >= 0 else (False,)):
                        for attrs in ((), ("optional",)):
                            for dcolon in ((True, False) if not attrs else (True,)):
                                yield (typ, n, dims, ext, ext_first, attrs, dcolon)


def sibling_case(case, acc: Acc):
    typ, n, dims, ext, ext_first, attrs, dcolon = case
    names = [f"e{i}" for i in range(n)]
    ents = [nm + ("(3)" if i == dims else "") for i, nm in enumerate(names)]
    L = ["module sibm", "  implicit none", "contains", f"  subroutine sib_host({', '.join(names)})"]
    ext_stmt = f"    external {names[ext]}" if ext >= 0 else None
    if ext_stmt and ext_first:
        L.append(ext_stmt)
    dl = len(L)
    L.append("    " + typ + "".join(", " + a for a in attrs) + (" :: " if dcolon else " ") + ", ".join(ents))
    if ext_stmt and not ext_first:
        L.append(ext_stmt)
    L += ["  end subroutine sib_host", "end module sibm"]
    text = "\n".join(L) + "\n"
    sc = worker_scratch("c11")
    sc.wipe()
    root = os.path.realpath(sc.path)
    path = os.path.join(root, "s.f90")
    with open(path, "w") as f:
        f.write(text)
    s = Server([])
    s.initialize(root)
    for i, nm in enumerate(names):
        col = re.search(rf"\b{nm}\b", L[dl]).start()
        r = s.result("textDocument/hover", Server.tdpp(path, dl, col + 1))
        acc.case(nontrivial_key=(case, i), outcome=(typ, n, i == dims, i == ext))
        tags = {"family": "siblings", "entity_has_dims": i == dims, "named_by_external": i == ext, "external_first": ext_first,
                "sibling_external": ext >= 0 and i != ext, "nattrs": len(attrs)}
        cs = {"case": repr(case), "text": text, "line": dl, "character": col + 1, "entity": nm}
        h = parse_hover(r["contents"]["value"]) if isinstance(r, dict) and isinstance(r.get("contents"), dict) else None
        if h is None:
            acc.violation(Violation("siblings", {**tags, "obs": "no_hover"}, cs, "a hover", r, what=f"{case} {nm}: no hover"))
            continue
        want = {norm(a) for a in attrs} | ({"DIMENSION(3)"} if i == dims else set())
        got = set(h["attrs"])
        if i == ext:
            got.discard("EXTERNAL")     # stated by a separate statement about this very entity: tolerated, not required
        probs = []
        if h["name"].lower() != nm:
            probs.append(("name", nm, h["name"]))
        if h["type"] != norm(typ):
            probs.append(("type_or_selector", norm(typ), h["type"]))
        if got != want or len(set(h["attrs"])) != len(h["attrs"]):
            probs.append(("attributes", sorted(want), sorted(h["attrs"])))
        for what, w, g in probs:
            acc.violation(Violation("siblings", {**tags, "obs": what}, cs, w, g,
                                    what=f"{L[dl].strip()!r}{' + ' + ext_stmt.strip() if ext_stmt else ''}: hover of {nm}: {what}: expected {w}, got {g}"))
    if len(acc.samples) < 1 and ext >= 0:
        acc.sample({"text": text})


# ------------------------------------------------------------------ procedures
def proc_cases():
    for kind in ("subroutine", "function"):
        for n in range(0, 4):
            for opt in range(0, n + 1):          # index of the optional dummy (n = none)
                for docd in (False, True):
                    yield (kind, n, opt, docd)


def proc_case(case, acc: Acc):
    kind, n, opt, docd = case
    args = [f"arg{i}" for i in range(n)]
    L = ["module pm", "  implicit none", "contains"]
    if docd:
        L.append("  !> top level documentation")
    head = f"  {kind} target_proc(" + ", ".join(args) + ")" + (" result(res)" if kind == "function" else "")
    pl = len(L)
    L.append(head)
    decls = []
    for i, a in enumerate(args):
        d = ("real(8), intent(in)" if i % 2 else "integer, intent(in)") + (", optional" if i == opt and opt < n else "")
        decls.append((a, d))
        L.append(f"    {d} :: {a}" + (f" !< doc of {a}" if docd else ""))
    if kind == "function":
        L.append("    integer :: res")
        L.append("    res = 0")
    L.append(f"  end {kind} target_proc")
    L.append("end module pm")
    text = "\n".join(L) + "\n"
    sc = worker_scratch("c11")
    sc.wipe()
    root = os.path.realpath(sc.path)
    path = os.path.join(root, "p.f90")
    with open(path, "w") as f:
        f.write(text)
    s = Server([])
    s.initialize(root)
    r = s.result("textDocument/hover", Server.tdpp(path, pl, L[pl].index("target_proc") + 3))
    acc.case(nontrivial_key=repr(case), outcome=case)
    tags0 = {"family": "procedures", "kind": kind, "nargs": n, "documented": docd}
    cs = {"case": repr(case), "text": text}
    if not (isinstance(r, dict) and isinstance(r.get("contents"), dict)):
        acc.violation(Violation("procedures", {**tags0, "obs": "no_hover"}, cs, "a hover", r))
        return
    m = HOVER_RE.match(r["contents"]["value"])
    code = m.group("code").split("\n") if m else []
    sig = norm(code[0]) if code else ""
    if not sig.startswith(norm(f"{kind} target_proc(")) or [a.upper() for a in args] != [norm(x).split("=")[0] for x in re.search(r"\((.*?)\)", code[0]).group(1).split(",") if x.strip()]:
        acc.violation(Violation("procedures", {**tags0, "obs": "signature_line"}, cs, head.strip(), code[:1], what=f"{case}: {code[:1]}"))
    got_decls = [norm(c) for c in code[1:1 + n]]
    want_decls = [norm(f"{d} :: {a}") for a, d in decls]
    if got_decls != want_decls:
        acc.violation(Violation("procedures", {**tags0, "obs": "dummy_declarations"}, cs, want_decls, got_decls, what=f"{case}: dummies {got_decls}"))
    docs = m.group("docs") or "" if m else ""
    if docd:
        if "top level documentation" not in docs or any(f"doc of {a}" not in docs for a in args):
            acc.violation(Violation("procedures", {**tags0, "obs": "documentation"}, cs, "top level + every dummy's doc", docs[:200], what=f"{case}: docs {docs[:80]!r}"))
    elif docs.strip():
        acc.violation(Violation("procedures", {**tags0, "obs": "documentation"}, cs, "", docs[:200]))


# ------------------------------------------------------- procedure forms
PREFIX_SETS = [(), ("pure",), ("elemental",), ("pure", "elemental"), ("recursive",), ("impure", "elemental"), ("recursive", "pure")]
FUN_TYPES = [None, "integer", "real(8)", "character(len=5)", "type(pt)", "double precision", "logical"]
DUMMY_ORDERS = ["in_order", "reversed", "joint", "joint_then_single"]


def form_cases():
    for kind in ("subroutine", "function"):
        for pre in PREFIX_SETS:
            for ft in (FUN_TYPES if kind == "function" else [None]):
                for res in ((False, True) if kind == "function" else (False,)):
                    for n in (1, 2, 3):
                        for order in DUMMY_ORDERS:
                            if n == 1 and order != "in_order":
                                continue
                            for type_first in (False, True):
                                if ft is None and type_first:
                                    continue
                                # documentation placement: only with the dummies declared in order (keeps the product small)
                                for doc in (("none", "before", "after", "trailing") if order == "in_order" else ("none",)):
                                    yield (kind, pre, ft, res, n, order, type_first, doc)


def form_case(case, acc: Acc):
    """Procedure statements in their other legal spellings: PURE / ELEMENTAL / RECURSIVE / IMPURE prefixes, a function
    whose type is part of the FUNCTION statement (before or after the other prefixes) with and without RESULT, dummy
    arguments declared in another order than the argument list or jointly in one statement: hover lists the dummies in
    *argument-list* order, each with its own declaration, and a function's result with its type."""
    kind, pre, ft, res, n, order, type_first, doc = case
    args = [f"arg{i}" for i in range(n)]
    rname = "res" if res else "target_proc"
    words = list(pre)
    if ft:
        words = ([ft] + words) if type_first else (words + [ft])
    head = "  " + " ".join(words + [kind]) + " target_proc(" + ", ".join(args) + ")" + (" result(res)" if res else "")
    L = ["module pm", "  implicit none", "  type :: pt", "    integer :: c", "  end type pt", "contains"]
    if doc == "before":
        L.append("  !> documentation of the procedure")
    pl = len(L)
    L.append(head + ("  !! documentation of the procedure" if doc == "trailing" else ""))
    if doc == "after":
        L.append("    !! documentation of the procedure")
    dtype = "real(8), intent(in)"
    want = [norm(f"{dtype} :: {a}") for a in args]
    if order == "in_order":
        decl = [f"    {dtype} :: {a}" for a in args]
    elif order == "reversed":
        decl = [f"    {dtype} :: {a}" for a in reversed(args)]
    elif order == "joint":
        decl = [f"    {dtype} :: " + ", ".join(reversed(args))]
    else:
        decl = [f"    {dtype} :: " + ", ".join(args[1:]), f"    {dtype} :: {args[0]}"]
    L += decl
    rtype = ft
    if kind == "function":
        if ft is None:
            rtype = "integer"
            L.append(f"    integer :: {rname}")
        if rtype.startswith("type("):
            L.append(f"    {rname}%c = 0")
        elif rtype.startswith("character"):
            L.append(f"    {rname} = 'x'")
        elif rtype == "logical":
            L.append(f"    {rname} = .true.")
        else:
            L.append(f"    {rname} = 0")
    L.append(f"  end {kind} target_proc")
    L.append("end module pm")
    text = "\n".join(L) + "\n"
    sc = worker_scratch("c11")
    sc.wipe()
    root = os.path.realpath(sc.path)
    path = os.path.join(root, "p.f90")
    with open(path, "w") as f:
        f.write(text)
    s = Server([])
    s.initialize(root)
    r = s.result("textDocument/hover", Server.tdpp(path, pl, L[pl].index("target_proc") + 3))
    acc.case(nontrivial_key=repr(case), outcome=(kind, len(pre), bool(ft), res, n, order, doc))
    tags0 = {"family": "procedure_forms", "kind": kind, "prefixes": "+".join(pre), "typed": ft or "", "result": res, "order": order, "doc": doc}
    cs = {"case": repr(case), "text": text}
    if not (isinstance(r, dict) and isinstance(r.get("contents"), dict)):
        acc.violation(Violation("procedure_forms", {**tags0, "obs": "no_hover"}, cs, "a hover", r, what=f"{head.strip()}: {r}"))
        return
    m = HOVER_RE.match(r["contents"]["value"])
    code = m.group("code").split("\n") if m else []
    first = code[0] if code else ""
    mm = re.match(r"^(?P<pre>.*?)\b(?P<kind>SUBROUTINE|FUNCTION)\s+(?P<name>\w+)\s*\((?P<args>[^)]*)\)(?:\s*RESULT\s*\((?P<res>\w+)\))?\s*$", first, re.I)
    ok = bool(mm) and mm.group("kind").lower() == kind and mm.group("name").lower() == "target_proc" \
        and [a.strip().lower() for a in mm.group("args").split(",") if a.strip()] == args
    if ok:
        got_pre = {w.lower() for w in re.findall(r"[A-Za-z]+", re.sub(r"\([^)]*\)", "", mm.group("pre")))}
        # the type of a function may be restated in the first line or in the result's own line; the other prefixes must be there
        ok = set(pre) <= got_pre and got_pre - set(pre) <= {w.lower() for w in re.findall(r"[A-Za-z]+", re.sub(r"\([^)]*\)", "", ft or ""))}
        if kind == "function" and mm.group("res") and mm.group("res").lower() != rname:
            ok = False
    if not ok:
        acc.violation(Violation("procedure_forms", {**tags0, "obs": "signature_line"}, cs, head.strip(), code[:1], what=f"{head.strip()!r}: {code[:1]}"))
        return
    got = [norm(c) for c in code[1:1 + n]]
    if got != want:
        acc.violation(Violation("procedure_forms", {**tags0, "obs": "dummy_declarations"}, cs, want, got, what=f"{head.strip()!r} dummies declared {order}: {got}"))
    # the documentation block belongs to the procedure and to nothing else: shown once, as the procedure's own text
    docs = (m.group("docs") or "") if m else ""
    own = docs.split("**Parameters:**")[0].split("**Return:**")[0]
    if doc != "none" and (docs.count("documentation of the procedure") != 1 or "documentation of the procedure" not in own):
        acc.violation(Violation("procedure_forms", {**tags0, "obs": "documentation"}, cs, "the block, once, as the procedure's documentation", docs[:200],
                                what=f"{head.strip()!r} with a documentation block {doc}: shown as {docs[:120]!r}"))
    if doc == "none" and docs.strip():
        acc.violation(Violation("procedure_forms", {**tags0, "obs": "documentation"}, cs, "", docs[:200], what=f"{head.strip()!r}: documentation from nowhere {docs[:80]!r}"))
    if kind == "function" and doc != "none":
        # the result variable has no documentation of its own
        bl = next(i for i, x in enumerate(L) if x.strip().startswith(rname + " =") or x.strip().startswith(rname + "%c ="))
        r2 = s.result("textDocument/hover", Server.tdpp(path, bl, L[bl].index(rname) + 1))
        v2 = r2["contents"]["value"] if isinstance(r2, dict) and isinstance(r2.get("contents"), dict) else ""
        # (for a function without RESULT the name is the function itself: its hover carries the documentation)
        if res and "documentation of the procedure" in v2:
            acc.violation(Violation("procedure_forms", {**tags0, "obs": "documentation_on_result"}, cs, "no documentation on the result variable", v2[:200],
                                    what=f"{head.strip()!r} with a documentation block {doc}: the result variable shows it"))
    if kind == "function":
        rest = [norm(c) for c in code[1 + n:]]
        typed_in_first = ft is not None and norm(ft) in norm(mm.group("pre"))
        if norm(f"{rtype} :: {rname}") not in rest and not typed_in_first:
            acc.violation(Violation("procedure_forms", {**tags0, "obs": "result_declaration"}, cs, f"{rtype} :: {rname}", code[1 + n:], what=f"{head.strip()!r}: result shown as {code[1 + n:]}"))


# ------------------------------------------------------- type statements
TYPE_ATTRS = [(), ("public",), ("private",), ("abstract",), ("bind(c)",), ("extends(base_t)",), ("public", "abstract"), ("abstract", "private"),
              ("bind(c)", "public"), ("public", "bind(c)"), ("extends(base_t)", "public"), ("private", "extends(base_t)"),
              ("abstract", "extends(base_t)", "public")]


def type_case(attrs, acc: Acc):
    """Hover on a derived-type definition restates the attributes of its TYPE statement."""
    L = ["module tm", "  implicit none", "  type, abstract :: base_t", "    integer :: b", "  end type base_t"]
    pl = len(L)
    L.append("  type" + "".join(", " + a for a in attrs) + " :: target_t")
    L += ["    integer :: c", "  end type target_t", "end module tm"]
    text = "\n".join(L) + "\n"
    sc = worker_scratch("c11")
    sc.wipe()
    root = os.path.realpath(sc.path)
    path = os.path.join(root, "t.f90")
    with open(path, "w") as f:
        f.write(text)
    s = Server([])
    s.initialize(root)
    r = s.result("textDocument/hover", Server.tdpp(path, pl, L[pl].index("target_t") + 2))
    acc.case(nontrivial_key=attrs, outcome=attrs)
    tags = {"family": "type_statements", "attrs": "+".join(attrs)}
    cs = {"attrs": list(attrs), "text": text}
    m = HOVER_RE.match(r["contents"]["value"]) if isinstance(r, dict) and isinstance(r.get("contents"), dict) else None
    first = m.group("code").split("\n")[0] if m else ""
    left, _, name = first.partition("::")
    got = sorted(norm(x) for x in left.split(",")[1:])
    if not m or norm(left.split(",")[0]) != "TYPE" or norm(name) != "TARGET_T" or got != sorted(norm(a) for a in attrs):
        acc.violation(Violation("type_statements", {**tags, "obs": "attributes"}, cs, L[pl].strip(), first, what=f"{L[pl].strip()!r} hovers as {first!r}"))


# ------------------------------------------------- documentation at the edges
def edge_doc_cases():
    for nl in (1, 2, 3):
        for final_newline in (True, False):
            for style in ("block_after", "trailing"):
                if style == "trailing" and nl > 1:
                    continue
                yield ("eof", nl, final_newline, style)
    for defined in (False, True):
        for style in ("after", "before", "trailing"):
            yield ("inactive_branch", defined, style)


def edge_doc_case(case, acc: Acc):
    """A documentation block that ends the file (with or without a final line break); documentation lines inside an
    inactive preprocessor branch document nothing."""
    sc = worker_scratch("c11")
    sc.wipe()
    root = os.path.realpath(sc.path)
    tags = {"family": "edge_docs", "kind": case[0], "style": case[-1]}
    if case[0] == "eof":
        _, nl, final_newline, style = case
        if style == "trailing":
            text = "module em\n  integer :: other\nend module em\ninteger :: v !! line 1"
        else:
            text = "module em\n  integer :: other\nend module em\ninteger :: v\n" + "\n".join(f"!! line {i + 1}" for i in range(nl))
        text += "\n" if final_newline else ""
        path = os.path.join(root, "e.f90")
        want = [f"line {i + 1}" for i in range(nl)]
        probes = [("v", 3, want), ("other", 1, [])]
        argv = []
    else:
        _, defined, style = case
        dl = {"after": ["  integer :: b", "  !! doc of b only"], "before": ["  !> doc of b only", "  integer :: b"], "trailing": ["  integer :: b !! doc of b only"]}[style]
        L = ["module pm", "  integer :: a", "#ifdef XDEF"] + dl + ["#endif", "  integer :: c", "end module pm"]
        text = "\n".join(L) + "\n"
        path = os.path.join(root, "e.F90")
        probes = [("a", 1, []), ("c", L.index("  integer :: c"), [])]
        if defined:
            probes.append(("b", next(i for i, x in enumerate(L) if "integer :: b" in x), ["doc of b only"]))
        argv = ["--pp_defs", json.dumps({"XDEF": "1"})] if defined else []
    with open(path, "w") as f:
        f.write(text)
    s = Server(argv)
    s.initialize(root)
    lines = text.split("\n")
    for name, ln, want in probes:
        r = s.result("textDocument/hover", Server.tdpp(path, ln, lines[ln].index(":: " + name) + 3))
        v = r["contents"]["value"] if isinstance(r, dict) and isinstance(r.get("contents"), dict) else ""
        m = HOVER_RE.match(v)
        docs = (m.group("docs") or "") if m else ""
        acc.case(nontrivial_key=(case, name), outcome=(case[0], bool(want)))
        ok = all(w in docs for w in want) and (want or not docs.strip())
        if not m or not ok:
            acc.violation(Violation("edge_docs", {**tags, "entity": name, "obs": "documentation"}, {"case": repr(case), "text": text, "entity": name}, want, docs[:200],
                                    what=f"{case}: hover on {name} shows documentation {docs[:80]!r}, expected {want}"))


# ------------------------------------------------------------------- signature
SIG_LIB = """module sm
  implicit none
contains
  subroutine s3(a, b, c)
    integer, intent(in) :: a
    integer, intent(in), optional :: b
    integer, intent(in), optional :: c
  end subroutine s3
  integer function f3(p, q, r)
    integer, intent(in) :: p, q, r
    f3 = p
  end function f3
  integer function g2(u, v)
    integer, intent(in) :: u, v
    g2 = u
  end function g2
  function lenof(t) result(n)
    character(len=*), intent(in) :: t
    integer :: n
    n = len(t)
  end function lenof
  subroutine l3(n, flag, x)
    integer, intent(in) :: n
    logical, intent(in), optional :: flag
    integer, intent(in), optional :: x
  end subroutine l3
  subroutine q3(x, k, flag)
    integer, intent(in) :: x, k
    logical, intent(in) :: flag
  end subroutine q3
end module sm
"""
SIGS = {"s3": ["a", "b", "c"], "f3": ["p", "q", "r"], "g2": ["u", "v"], "lenof": ["t"], "l3": ["n", "flag", "x"], "q3": ["x", "k", "flag"]}
CALLS = [
    "  call s3(1, 2, 3)",
    "  call s3(k, c=3)",
    "  call s3(1, b=2, c=3)",
    "  k = f3(1, g2(2, 3), 4)",
    "  k = f3(g2(1, 2), 3, lenof('a,(b'))",
    "  call s3(1, (2+3), c=4)",
    "  call s3(f3(1, 2, 3), g2(4, 5))",
    "  k = g2(lenof(\"x)y\"), 2)",
    "  call s3(c=3, b=2, a=1)",
    "  call s3(b=2, a=k)",
    "  k = f3(r=3, q=g2(v=2, u=1), p=1)",
    # a literal that contains the other kind of quote, and a doubled delimiter
    "  k = f3(lenof(\"can't\"), 2, 3)",
    "  k = f3(1, lenof('say \"hi'), r=3)",
    "  k = g2(lenof('it''s'), lenof(\"a\"\"b'c\"))",
    # relational operators spelled with '=' inside the value of a keyword argument, and in a positional argument whose
    # left operand is spelled like a dummy argument (k == 2 is not the keyword k)
    "  call l3(2, x = k, flag = k /= 2)",
    "  call l3(2, flag = k == 2, x = 1)",
    "  call l3(2, flag = k <= 2)",
    "  call l3(x = 1, flag = k >= 2, n = 3)",
    "  call q3(1, 2, k == 2)",
    "  call q3(1, 2, k /= 1)",
]


def reference_signature(line, col):
    """(callee, active index) of the innermost *call* whose argument list contains the cursor; a
    parenthesised sub-expression belongs to the enclosing call's current argument."""
    stack = []  # [callee or None, arg index, current arg text]
    i, q = 0, None
    while i < col:
        ch = line[i]
        if q:
            if ch == q:
                q = None
        elif ch in "'\"":
            q = ch
        elif ch == "(":
            m = re.search(r"([A-Za-z_]\w*)\s*$", line[:i])
            callee = m.group(1) if m and m.group(1).lower() not in ("call",) else None
            stack.append([callee, 0, ""])
            i += 1
            continue
        elif ch == ")":
            if stack:
                stack.pop()
        elif ch == "," and stack:
            stack[-1][1] += 1
            stack[-1][2] = ""
            i += 1
            continue
        if stack:
            stack[-1][2] += ch
        i += 1
    for callee, idx, cur in reversed(stack):
        if callee in SIGS:
            m = re.match(r"\s*(\w+)\s*=(?!=)", cur)
            if m and m.group(1) in SIGS[callee]:
                idx = SIGS[callee].index(m.group(1))
            elif idx > 0 and _earlier_keyword(line, col, callee):
                # after a keyword argument only keyword arguments may follow: until `name=` is typed the
                # parameter the cursor is in is not determined
                return None, None, q is not None
            return callee, idx, q is not None
    return None, None, q is not None


def _earlier_keyword(line, col, callee):
    """Does an earlier argument of the innermost call of `callee` before col use the keyword form?"""
    start = line.rfind(callee + "(", 0, col)
    seg = line[start + len(callee) + 1:col]
    depth, q, cur, args = 0, None, "", []
    for ch in seg:
        if q:
            if ch == q:
                q = None
        elif ch in "'\"":
            q = ch
        elif ch == "(":
            depth += 1
        elif ch == ")":
            depth -= 1
        elif ch == "," and depth == 0:
            args.append(cur)
            cur = ""
            continue
        cur += ch
    return any(re.match(r"\s*\w+\s*=[^=]", a) for a in args)


def sig_case(call, acc: Acc):
    text = SIG_LIB + "program sp\n  use sm\n  implicit none\n  integer :: k\n  k = 0\n" + call + "\nend program sp\n"
    sc = worker_scratch("c11")
    sc.wipe()
    root = os.path.realpath(sc.path)
    path = os.path.join(root, "s.f90")
    with open(path, "w") as f:
        f.write(text)
    s = Server([])
    s.initialize(root)
    ln = text.split("\n").index(call)
    first = call.index("(") + 1
    last = len(call.rstrip()) - 1
    for col in range(first, last + 1):
        callee, idx, in_string = reference_signature(call, col)
        r = s.result("textDocument/signatureHelp", Server.tdpp(path, ln, col))
        acc.case(nontrivial_key=(call, col), outcome=(callee, idx))
        tags0 = {"family": "signature", "call": call.strip(), "in_string": in_string, "nested_paren_expr": _in_plain_paren(call, col)}
        cs = {"call": call, "character": col, "text": text, "line": ln}
        if callee is None:
            continue
        if not (isinstance(r, dict) and r.get("signatures")):
            acc.violation(Violation("signature", {**tags0, "obs": "no_signature"}, cs, (callee, idx), r, what=f"{call.strip()!r} col {col}: expected {callee}[{idx}], got {r}"))
            continue
        sig = r["signatures"][0]
        params = [p["label"].split("=")[0] for p in sig.get("parameters", [])]
        if not sig["label"].lower().startswith(callee) or params != SIGS[callee]:
            acc.violation(Violation("signature", {**tags0, "obs": "wrong_signature"}, cs, (callee, SIGS[callee]), (sig["label"], params),
                                    what=f"{call.strip()!r} col {col}: expected {callee}{SIGS[callee]}, got {sig['label']}"))
        elif r.get("activeParameter") != idx:
            acc.violation(Violation("signature", {**tags0, "obs": "active_parameter"}, cs, idx, r.get("activeParameter"),
                                    what=f"{call.strip()!r} col {col}: active parameter {r.get('activeParameter')}, expected {idx} of {callee}"))


# ------------------------------------------------------ type-bound signatures
# A call through a binding does not write the passed-object dummy: it is the first dummy by default, the one named by
# PASS(name) (in any letter case and spacing), none with NOPASS.
BOUND_LIB = """module bm
  implicit none
  type :: bt
  contains
    procedure :: tb_default => bimpl_first
    procedure, pass(me) :: tb_pass => bimpl_mid
    procedure, PASS( Me ) :: tb_pass_spaced => bimpl_mid
    procedure, pass (ME) :: tb_pass_upper => bimpl_last
    procedure, nopass :: tb_nopass => bimpl_none
    procedure :: tb_short_upper => S
    procedure :: tb_keyword_part => UB
    procedure :: tb_two_a => bimpl_first, tb_two_b => bimpl_first
  end type bt
contains
  subroutine S(me, x, y)
    class(bt) :: me
    integer :: x, y
  end subroutine S
  subroutine UB(me, x, y)
    class(bt) :: me
    integer :: x, y
  end subroutine UB
  subroutine bimpl_first(me, x, y)
    class(bt) :: me
    integer :: x, y
  end subroutine bimpl_first
  subroutine bimpl_mid(x, me, y)
    class(bt) :: me
    integer :: x, y
  end subroutine bimpl_mid
  subroutine bimpl_last(x, y, me)
    class(bt) :: me
    integer :: x, y
  end subroutine bimpl_last
  subroutine bimpl_none(x, y)
    integer :: x, y
  end subroutine bimpl_none
end module bm
"""
# (the last two: implementations whose upper-case names also occur inside the word SUBROUTINE of the hover text)
BOUND_NAMES = ["tb_default", "tb_pass", "tb_pass_spaced", "tb_pass_upper", "tb_nopass", "tb_short_upper", "tb_keyword_part", "tb_two_a", "tb_two_b"]


BOUND_IMPL = {"tb_default": ("bimpl_first", ["me", "x", "y"]), "tb_pass": ("bimpl_mid", ["x", "me", "y"]), "tb_pass_spaced": ("bimpl_mid", ["x", "me", "y"]),
              "tb_pass_upper": ("bimpl_last", ["x", "y", "me"]), "tb_nopass": ("bimpl_none", ["x", "y"]), "tb_short_upper": ("S", ["me", "x", "y"]),
              "tb_keyword_part": ("UB", ["me", "x", "y"]), "tb_two_a": ("bimpl_first", ["me", "x", "y"]), "tb_two_b": ("bimpl_first", ["me", "x", "y"])}


def bound_case(job, acc: Acc):
    """job = (binding, order): the call through the binding and the direct call of its implementation are asked in one
    server session in both orders (what is remembered from the first answer must not leak into the second)."""
    name, order = job
    impl, dummies = BOUND_IMPL[name]
    actual = {"me": "ob", "x": "11", "y": "22"}
    call = f"  call ob%{name}(11, 22)"
    direct = f"  call {impl}(" + ", ".join(actual[d] for d in dummies) + ")"
    text = BOUND_LIB + "program bp\n  use bm\n  implicit none\n  type(bt) :: ob\n" + call + "\n" + direct + "\nend program bp\n"
    sc = worker_scratch("c11")
    sc.wipe()
    root = os.path.realpath(sc.path)
    path = os.path.join(root, "b.f90")
    with open(path, "w") as f:
        f.write(text)
    s = Server([])
    s.initialize(root)
    lines = text.split("\n")
    tags0 = {"family": "bound_signature", "binding": name, "order": order}

    def ask(kind):
        stmt, label, want = (call, name, ["x", "y"]) if kind == "bound" else (direct, impl.lower(), dummies)
        ln = lines.index(stmt)
        for lit in ("11", "22"):
            col = stmt.index(lit) + 1
            idx = want.index("x" if lit == "11" else "y")
            r = s.result("textDocument/signatureHelp", Server.tdpp(path, ln, col))
            acc.case(nontrivial_key=(name, order, kind, idx), outcome=(name, kind, idx))
            cs = {"binding": name, "order": order, "character": col, "text": text, "line": ln}
            if not (isinstance(r, dict) and r.get("signatures")):
                acc.violation(Violation("bound_signature", {**tags0, "call": kind, "obs": "no_signature"}, cs, (label, want, idx), r,
                                        what=f"{stmt.strip()!r} col {col} ({order}): no signature"))
                continue
            sig = r["signatures"][0]
            params = [p["label"].split("=")[0].lower() for p in sig.get("parameters", [])]
            if not sig["label"].lower().startswith(label) or params != want:
                acc.violation(Violation("bound_signature", {**tags0, "call": kind, "obs": "wrong_signature"}, cs, (label, want), (sig["label"], params),
                                        what=f"{stmt.strip()!r} ({order}): expected {label}({', '.join(want)}), got {sig['label']} with parameters {params}"))
            elif r.get("activeParameter") != idx:
                acc.violation(Violation("bound_signature", {**tags0, "call": kind, "obs": "active_parameter"}, cs, idx, r.get("activeParameter"),
                                        what=f"{stmt.strip()!r} col {col} ({order}): active parameter {r.get('activeParameter')}, expected {idx}"))

    for kind in (("bound", "direct") if order == "bound_first" else ("direct", "bound")):
        ask(kind)
    ln = lines.index(call)
    h = s.result("textDocument/hover", Server.tdpp(path, ln, call.index(name) + 2))
    code = (h or {}).get("contents", {}).get("value", "").split("\n")
    first = norm(code[1]) if len(code) > 1 else ""
    if first != norm(f"SUBROUTINE {name}(x, y)"):
        acc.violation(Violation("bound_signature", {"family": "bound_signature", "binding": name, "obs": "hover_signature_line"},
                                {"binding": name, "order": order, "text": text, "line": ln}, f"SUBROUTINE {name}(x, y)", code[:2], what=f"hover of ob%{name}: {code[1:2]}"))
    # ... and the same on the binding name in the statement that declares it (possibly the second binding of the statement)
    dl = next(i for i, t in enumerate(lines) if re.search(rf"\b{name} =>", t))
    h = s.result("textDocument/hover", Server.tdpp(path, dl, lines[dl].index(name + " =>") + 2))
    code = (h or {}).get("contents", {}).get("value", "").split("\n")
    first = norm(code[1]) if len(code) > 1 else ""
    if first != norm(f"SUBROUTINE {name}(x, y)"):
        acc.violation(Violation("bound_signature", {"family": "bound_signature", "binding": name, "obs": "hover_at_declaration"},
                                {"binding": name, "order": order, "text": text, "line": dl}, f"SUBROUTINE {name}(x, y)", code[:2],
                                what=f"hover of {name} in {lines[dl].strip()!r}: {code[1:2]}"))


def _in_plain_paren(line, col):
    depth_kinds = []
    q = None
    for i, ch in enumerate(line[:col]):
        if q:
            if ch == q:
                q = None
        elif ch in "'\"":
            q = ch
        elif ch == "(":
            m = re.search(r"([A-Za-z_]\w*)\s*$", line[:i])
            depth_kinds.append(bool(m) and m.group(1).lower() != "call" or (bool(m) and False))
            depth_kinds[-1] = bool(m)
        elif ch == ")" and depth_kinds:
            depth_kinds.pop()
    return bool(depth_kinds) and not depth_kinds[-1]


def main(ctx):
    maxattrs = 2 if ctx.quick else 3
    ctx.rule = (f"declarations: 7 types x their kind/len selectors x ordered attribute lists of <= {maxattrs} attributes x entity forms "
                "x with/without '::' x 8 documentation placements, PARAMETER values with nested parentheses / arrays / strings, dummy "
                "arguments with INTENT/OPTIONAL; procedures: subroutine/function x 0-3 dummies x optional position x documented; "
                "signature: 11 calls x every column of the argument list. Non-trivial: all; distinct by case.")
    ctx.assumptions = ["hover is compared field by field modulo blanks and letter case (type+selector, attribute set, name, value, docs)",
                       "a parenthesised sub-expression inside an argument belongs to that argument of the enclosing call"]
    dacc = core.pmap(decl_case, decl_cases(maxattrs), chunk=16, budget_s=120, label="C11/decl")
    ctx.add_family("declarations", dacc, max_attributes=maxattrs)
    bacc = core.pmap(sibling_case, sibling_cases(not ctx.quick), chunk=8, budget_s=120, label="C11/siblings")
    ctx.add_family("siblings", bacc, what="2-3 dummy entities declared by one statement, one optionally with its own dimensions, one "
                   "optionally named by a separate EXTERNAL statement before or after; hover on every entity")
    pacc = core.pmap(proc_case, proc_cases(), chunk=4, budget_s=120, label="C11/proc")
    ctx.add_family("procedures", pacc)
    facc = core.pmap(form_case, form_cases(), chunk=8, budget_s=120, label="C11/forms")
    ctx.add_family("procedure_forms", facc, what="PURE/ELEMENTAL/RECURSIVE/IMPURE prefixes x function type in the FUNCTION statement (7 types, before or after the "
                   "other prefixes) x RESULT clause x 1-3 dummies declared in order / reversed / jointly: dummies listed in argument-list order each with "
                   "its own declaration, the result with its type")
    yacc = core.pmap(type_case, TYPE_ATTRS, chunk=2, budget_s=120, label="C11/types")
    ctx.add_family("type_statements", yacc, what="TYPE statements with 0-3 attributes (PUBLIC, PRIVATE, ABSTRACT, BIND(C), EXTENDS) in several orders: the hover restates the attribute set")
    eacc = core.pmap(edge_doc_case, list(edge_doc_cases()), chunk=2, budget_s=120, label="C11/edge_docs")
    ctx.add_family("edge_docs", eacc, what="documentation blocks that end the file (1-3 lines, with / without a final line break, trailing form); documentation lines inside "
                   "an inactive / active #ifdef branch (before, after, trailing): hover of the neighbours shows none of it")
    sacc = core.pmap(sig_case, CALLS, chunk=1, budget_s=120, label="C11/sig")
    ctx.add_family("signature", sacc)
    tacc = core.pmap(bound_case, [(n, o) for n in BOUND_NAMES for o in ("bound_first", "direct_first")], chunk=1, budget_s=120, label="C11/bound")
    ctx.add_family("bound_signature", tacc, what="calls through seven bindings (default pass, PASS(name) in three spellings and dummy positions, NOPASS, implementations named S and UB) and the direct call of the implementation, in one session, in both orders")


def replay(rec):
    c = rec["case"]
    acc = Acc()
    if rec["family"] == "declarations":
        decl_case(eval(c["case"]), acc)
    elif rec["family"] == "bound_signature":
        bound_case((c["binding"], c.get("order", "bound_first")), acc)
    elif rec["family"] == "siblings":
        sibling_case(eval(c["case"]), acc)
        acc.violations = [v for v in acc.violations if v.case["entity"] == c["entity"]]
    elif rec["family"] == "procedures":
        proc_case(eval(c["case"]), acc)
    elif rec["family"] == "type_statements":
        type_case(tuple(c["attrs"]), acc)
    elif rec["family"] == "edge_docs":
        edge_doc_case(eval(c["case"]), acc)
        acc.violations = [v for v in acc.violations if v.case["entity"] == c["entity"]]
    elif rec["family"] == "procedure_forms":
        form_case(eval(c["case"]), acc)
    else:
        sig_case(c["call"], acc)
        acc.violations = [v for v in acc.violations if v.case["character"] == c["character"]]
    return [v.to_json("C11") for v in acc.violations] or None
