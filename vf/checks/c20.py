"""C20 — cyclic and self-referential program structure never causes unbounded recursion.

Enumeration of a cycle catalogue: every shape x cycle length 1..N x placement (one
file / one unit per file).  Each workspace is indexed by a fresh real server
(start-up path), every file is opened and saved (diagnostics), and every identifier
of every file is queried with the nine positional requests plus documentSymbol and
workspace/symbol.  Oracle: every request answers with a well-formed `result` within
the time budget, no RecursionError anywhere in the transcript, no error response to a
notification, and the server still answers a trivial request afterwards.
"""
from __future__ import annotations

import os
import re
import time

from .. import core, shapes
from ..core import Acc, Violation
from ..driver import Server, worker_scratch
from . import c09

LEVEL = "exploration"

REQUEST_BUDGET_S = 5.0


# ------------------------------------------------------------------ catalogue
_REV = [False]
_TAIL = [0]


def _ring(n):
    """(i, successor of i) around the ring; reversed for the *_rev shapes so that the
    link direction is opposite to the (name-sorted) load order as well.  The *_lasso shapes add a tail of
    nodes outside the ring that leads into it (node n -> 0, n+1 -> n): walks that start on the tail enter the
    cycle but never come back to their starting point."""
    if _REV[0]:
        ring = [(i, (i - 1) % n) for i in range(n)]
    else:
        ring = [(i, (i + 1) % n) for i in range(n)]
    return ring + [(n + k, 0 if k == 0 else n + k - 1) for k in range(_TAIL[0])]


def _entry(n):
    """The node user code starts from: the far end of the tail, or node 0 of a plain ring."""
    return n + _TAIL[0] - 1 if _TAIL[0] else 0


def shape_use(n):
    units = []
    for i, j in _ring(n):
        units.append((f"um{i}", f"module um{i}\n  use um{j}\n  implicit none\n  integer :: uv{i}\ncontains\n  subroutine us{i}()\n    uv{i} = uv{j}\n  end subroutine us{i}\nend module um{i}\n"))
    e = _entry(n)
    units.append(("uprog", f"program uprog\n  use um{e}\n  implicit none\n  uv{e} = 1\n  call us{e}()\nend program uprog\n"))
    return units


def shape_use_rename(n):
    units = []
    for i, j in _ring(n):
        units.append((f"rm{i}", f"module rm{i}\n  use rm{j}, only: ra{i} => ra{j}\n  implicit none\n  integer :: rb{i}\nend module rm{i}\n"))
    units.append(("rprog", "program rprog\n  use rm0\n  rb0 = ra0\nend program rprog\n"))
    return units


def shape_extends(n):
    body = "module em\n  implicit none\n"
    for i, j in _ring(n):
        body += (f"  type, extends(et{j}) :: et{i}\n    integer :: ec{i}\n  contains\n    procedure :: ep => eimpl{i}\n"
                 f"    procedure :: eq{i} => eimpl{i}\n  end type et{i}\n")
    body += "contains\n"
    for i, _ in _ring(n):
        body += f"  subroutine eimpl{i}(self)\n    class(et{i}) :: self\n    self%ec{i} = 1\n    call self%ep()\n  end subroutine eimpl{i}\n"
    body += "end module em\n"
    e = _entry(n)
    prog = f"program eprog\n  use em\n  type(et{e}) :: ev\n  ev%ec{e} = 2\n  call ev%ep()\n  call ev%eq{e}()\nend program eprog\n"
    return [("em", body), ("eprog", prog)]


def shape_extends_files(n):
    units = []
    for i, j in _ring(n):
        units.append((f"xm{i}", f"module xm{i}\n  use xm{j}\n  implicit none\n  type, extends(xt{j}) :: xt{i}\n    integer :: xc{i}\n  contains\n"
                               f"    procedure :: xp => ximpl{i}\n  end type xt{i}\ncontains\n  subroutine ximpl{i}(self)\n    class(xt{i}) :: self\n"
                               f"    self%xc{i} = 1\n  end subroutine ximpl{i}\nend module xm{i}\n"))
    e = _entry(n)
    units.append(("xprog", f"program xprog\n  use xm{e}\n  type(xt{e}) :: xv\n  xv%xc{e} = 1\n  call xv%xp()\nend program xprog\n"))
    return units


def shape_submodule(n):
    units = [("sroot", "module sroot\n  implicit none\n  interface\n    module subroutine sproc(a)\n      integer :: a\n    end subroutine sproc\n  end interface\nend module sroot\n")]
    for i, j in _ring(n):
        units.append((f"ss{i}", f"submodule (ss{j}) ss{i}\n  implicit none\n  integer :: sv{i}\ncontains\n  module subroutine sproc(a)\n    integer :: a\n    sv{i} = a\n  end subroutine sproc\nend submodule ss{i}\n"))
    return units


def shape_submodule_colon(n):
    units = [("troot", "module troot\n  implicit none\n  interface\n    module subroutine tproc(a)\n      integer :: a\n    end subroutine tproc\n  end interface\nend module troot\n")]
    for i, j in _ring(n):
        units.append((f"ts{i}", f"submodule (troot:ts{j}) ts{i}\n  integer :: tv{i}\ncontains\n  module procedure tproc\n    tv{i} = a\n  end procedure tproc\nend submodule ts{i}\n"))
    return units


def shape_pointer(n):
    b = "subroutine psub()\n  implicit none\n"
    for i, j in _ring(n):
        b += f"  integer, pointer :: pa{i} => pa{j}\n"
    b += f"  pa{_entry(n)} = 1\n  print *, pa{_entry(n)}\nend subroutine psub\n"
    return [("psub", b)]


def shape_associate(n):
    b = "subroutine asub()\n  implicit none\n  integer :: ax\n  associate (" + ", ".join(f"aq{i} => aq{j}" for i, j in _ring(n)) + ")\n"
    b += "    ax = aq0\n    aq0 = 2\n  end associate\nend subroutine asub\n"
    return [("asub", b)]


def shape_associate_nested(n):
    b = "subroutine nsub()\n  implicit none\n  integer :: nx\n"
    for i, j in _ring(n):
        b += "  " * (i + 1) + f"associate (nq{i} => nq{j})\n"
    b += "  " * (n + 1) + "nx = nq0\n"
    for i in reversed(range(n)):
        b += "  " * (i + 1) + "end associate\n"
    b += "end subroutine nsub\n"
    return [("nsub", b)]


def shape_binding(n):
    b = "module bm\n  implicit none\n  type :: bt\n  contains\n"
    for i, j in _ring(n):
        b += f"    procedure :: bp{i} => bp{j}\n"
    b += f"  end type bt\ncontains\n  subroutine buse(v)\n    class(bt) :: v\n    call v%bp{_entry(n)}()\n  end subroutine buse\nend module bm\n"
    return [("bm", b)]


def shape_procptr(n):
    b = "subroutine qsub()\n  implicit none\n"
    for i, j in _ring(n):
        b += f"  procedure(qp{j}), pointer :: qp{i}\n"
    b += "  call qp0()\nend subroutine qsub\n"
    return [("qsub", b)]


def shape_pointer_across_use(n):
    """A ring of pointer initialisations whose members live in different modules that USE each other: every link
    leaves the scope of its variable, and the chain comes back through the cyclic USE."""
    units = []
    for i, j in _ring(n):
        units.append((f"vm{i}", f"module vm{i}\n  use vm{j}\n  implicit none\n  integer, pointer :: vp{i} => vp{j}\n"
                               f"  procedure(vq{j}), pointer :: vq{i}\ncontains\n  subroutine vs{i}()\n    vp{i} = 1\n    call vq{i}()\n  end subroutine vs{i}\nend module vm{i}\n"))
    e = _entry(n)
    units.append(("vprog", f"program vprog\n  use vm{e}\n  implicit none\n  vp{e} = 2\n  call vq{e}()\n  call vs{e}()\nend program vprog\n"))
    return units


def shape_generic_across_use(n):
    """Modules on a USE ring that all declare a generic interface of the same name (each with its own specific)."""
    units = []
    kinds = ["integer", "real", "logical", "complex", "character(len=1)", "double precision", "integer(8)", "real(8)"]
    for i, j in _ring(n):
        units.append((f"wm{i}", f"module wm{i}\n  use wm{j}\n  implicit none\n  interface wshow\n    module procedure wsp{i}\n  end interface wshow\n"
                               f"contains\n  subroutine wsp{i}(a)\n    {kinds[i % len(kinds)]} :: a\n  end subroutine wsp{i}\nend module wm{i}\n"))
    e = _entry(n)
    units.append(("wprog", f"program wprog\n  use wm{e}\n  implicit none\n  call wshow(1)\n  call wsp{e}(1)\nend program wprog\n"))
    return units


def shape_generic(n):
    b = "module gm\n  implicit none\n"
    for i, j in _ring(n):
        b += f"  interface gi{i}\n    module procedure gi{j}\n  end interface gi{i}\n"
    b += "  type :: gt\n  contains\n"
    for i, j in _ring(n):
        b += f"    generic :: gg{i} => gg{j}\n"
    b += "  end type gt\ncontains\n  subroutine guse(v)\n    class(gt) :: v\n    call gi0(1)\n    call v%gg0(1)\n  end subroutine guse\nend module gm\n"
    return [("gm", b)]


def shape_include(n):
    units = []
    for i, j in _ring(n):
        units.append((f"inc{i}", f"  integer :: iv{i}\n  include 'inc{j}.f90'\n"))
    e = _entry(n)
    units.append(("iprog", f"program iprog\n  implicit none\n  include 'inc{e}.f90'\n  iv{e} = 1\nend program iprog\n"))
    return units


def shape_include_in_scope(n):
    """Ordinary source files whose procedure bodies INCLUDE the next source file of the ring (n = 1: itself)."""
    units = []
    for i, j in _ring(n):
        units.append((f"qsrc{i}", f"integer :: qtop{i}\nsubroutine qsub{i}()\n  integer :: qv{i}\n  include 'qsrc{j}.f90'\n  qv{i} = 1\nend subroutine qsub{i}\n"))
    return units


def shape_pp_include(n):
    units = []
    for i, j in _ring(n):
        units.append((f"hdr{i}.h", f"#define HV{i} {i}\n#include \"hdr{j}.h\"\n"))
    units.append(("hprog.F90", "program hprog\n#include \"hdr0.h\"\n  integer :: hx\n  hx = HV0\nend program hprog\n"))
    return units


def shape_pp_macro(n):
    b = "program mprog\n"
    for i, j in _ring(n):
        b += f"#define MC{i} MC{j}\n"
    b += "#if MC0\n  integer :: my\n#endif\n  integer :: mx\n  mx = MC0\nend program mprog\n"
    return [("mprog.F90", b)]


def shape_select(n):
    b = "subroutine ssub(sx0)\n  implicit none\n  class(*) :: sx0\n"
    for i, j in _ring(n):
        b += "  " * (i + 1) + f"select type (sx{i} => sx{j})\n" + "  " * (i + 1) + "type is (integer)\n"
    b += "  " * (n + 1) + "print *, sx0\n"
    for i in reversed(range(n)):
        b += "  " * (i + 1) + "end select\n"
    b += "end subroutine ssub\n"
    return [("ssub", b)]


def shape_component(n):
    b = "module cm\n  implicit none\n"
    for i, j in _ring(n):
        b += f"  type :: ct{i}\n    integer :: cval{i}\n    type(ct{j}), pointer :: cnext{i} => null()\n  end type ct{i}\n"
    b += "contains\n  subroutine cuse(cv)\n    type(ct0) :: cv\n"
    chain = "cv" + "".join(f"%cnext{i % n}" for i in range(2 * n + 1))
    b += f"    {chain}%cval{(2 * n + 1) % n} = 1\n  end subroutine cuse\nend module cm\n"
    return [("cm", b)]


def shape_iface_arg(n):
    b = "module fm\n  implicit none\n  abstract interface\n"
    for i, j in _ring(n):
        b += f"    subroutine fi{i}(f)\n      import\n      procedure(fi{j}) :: f\n    end subroutine fi{i}\n"
    b += "  end interface\ncontains\n  subroutine fuse(g)\n    procedure(fi0) :: g\n    call g(g)\n  end subroutine fuse\nend module fm\n"
    return [("fm", b)]


def shape_result(n):
    b = "module wm\n  implicit none\ncontains\n"
    for i, j in _ring(n):
        b += f"  function wf{i}() result(wf{j})\n    integer :: wf{j}\n    wf{j} = 1\n  end function wf{i}\n"
    b += "  subroutine wuse()\n    print *, wf0()\n  end subroutine wuse\nend module wm\n"
    return [("wm", b)]


def shape_self_use(n):
    units = []
    for i in range(n):
        units.append((f"zm{i}", f"module zm{i}\n  use zm{i}\n  use zm{(i + 1) % n}, only: zm{i}\n  implicit none\n  integer :: zv{i}\nend module zm{i}\n"))
    units.append(("zprog", "program zprog\n  use zm0\n  zv0 = 1\nend program zprog\n"))
    return units


SHAPES = {
    "use": shape_use, "use_rename": shape_use_rename, "extends": shape_extends, "extends_files": shape_extends_files,
    "submodule": shape_submodule, "submodule_colon": shape_submodule_colon, "pointer": shape_pointer,
    "associate": shape_associate, "associate_nested": shape_associate_nested, "binding": shape_binding,
    "procptr": shape_procptr, "generic": shape_generic, "include": shape_include, "pp_include": shape_pp_include,
    "pp_macro": shape_pp_macro, "select_type": shape_select, "component": shape_component, "iface_arg": shape_iface_arg,
    "result_name": shape_result, "self_use": shape_self_use, "include_in_scope": shape_include_in_scope,
    "pointer_across_use": shape_pointer_across_use, "generic_across_use": shape_generic_across_use,
}


def _reversed(fn):
    def g(n):
        _REV[0] = True
        try:
            return fn(n)
        finally:
            _REV[0] = False
    return g


for _name in ("use", "extends_files", "submodule", "submodule_colon", "include", "pp_include", "pointer", "binding"):
    SHAPES[_name + "_rev"] = _reversed(SHAPES[_name])


def _lasso(fn, t):
    def g(n):
        _TAIL[0] = t
        try:
            return fn(n)
        finally:
            _TAIL[0] = 0
    return g


for _name in ("use", "extends", "extends_files", "submodule", "include", "pointer", "binding", "extends_files_rev", "include_rev",
              "include_in_scope", "pointer_across_use", "generic_across_use"):
    for _t in (1, 2):
        SHAPES[f"{_name}_lasso{_t}"] = _lasso(SHAPES[_name], _t)


def render(units, placement):
    """placement 'files': one unit per file; 'single': all Fortran units in one file."""
    files = {}
    headers = [(n, t) for n, t in units if n.endswith(".h")]
    includes = [(n, t) for n, t in units if n.startswith("inc")]
    rest = [(n, t) for n, t in units if not n.endswith(".h") and not n.startswith("inc")]
    for n, t in headers:
        files[n] = t
    for n, t in includes:
        files[n + ".f90"] = t
    if placement == "single" and len(rest) > 1 and not any(n.endswith(".F90") for n, _ in rest):
        files["all_in_one.f90"] = "\n".join(t for _, t in rest)
    else:
        for n, t in rest:
            files[n if "." in n else n + ".f90"] = t
    return files


# ------------------------------------------------------------------ execution
IDENT = re.compile(r"[A-Za-z_]\w*")


ORDERS = ("sorted", "reversed", "rotated")


def run_case(job, acc: Acc):
    shape, n, placement = job[:3]
    order = job[3] if len(job) > 3 else "sorted"
    sc = worker_scratch("c20")
    sc.wipe()
    files = render(SHAPES[shape](n), placement)
    for rel, text in files.items():
        sc.write(rel, text)
    desc = f"{shape} n={n} {placement}" + ("" if order == "sorted" else f" load order {order}")
    tags = {"shape": shape}
    t0 = time.time()
    s = Server([])
    if order != "sorted":
        # the order in which start-up meets the files of a ring (a dimension the cycle guards must not depend on)
        real = s.srv._get_source_files

        def scripted():
            lst = sorted(real())
            return lst[::-1] if order == "reversed" else lst[len(lst) // 2:] + lst[:len(lst) // 2]

        s.srv._get_source_files = scripted
    resp, other = s.initialize(sc.path)
    transcript = [resp] + other
    if "error" in resp:
        acc.case(nontrivial_key=desc, outcome="init_error")
        acc.violation(Violation("cycles", {"family": "cycles", "method": "initialize", "obs": "error", **tags},
                                {"shape": shape, "n": n, "placement": placement, "order": order}, "result", str(resp["error"].get("message"))[:200], what=desc))
        return
    slow = []
    for rel, text in sorted(files.items()):
        path = os.path.join(sc.path, rel)
        for act in ("open", "save"):
            t1 = time.time()
            out = getattr(s, act)(path)
            if time.time() - t1 > REQUEST_BUDGET_S:
                slow.append((act, rel))
            transcript += out
            for o in out:
                if "id" in o and "method" not in o:
                    acc.violation(Violation("cycles", {"family": "cycles", "method": act, "obs": "response_to_notification", **tags},
                                            {"shape": shape, "n": n, "placement": placement, "order": order}, None, str(o)[:200], what=desc))
                if o.get("method") == "window/showMessage" and o["params"].get("type") == 1:
                    acc.violation(Violation("cycles", {"family": "cycles", "method": act, "obs": "error_message", **tags},
                                            {"shape": shape, "n": n, "placement": placement, "order": order}, "no error message", o["params"]["message"][:200], what=f"{desc}: {o['params']['message'][:120]}"))
                if o.get("method") == "textDocument/publishDiagnostics":
                    c09.check_result(s, "cycles", "publishDiagnostics", o["params"]["diagnostics"], o["params"]["uri"],
                                     {"shape": shape, "n": n, "placement": placement, "order": order, "file": rel}, acc, tags)
        lines = text.split("\n")
        for ln, line in enumerate(lines):
            code = line.split("!")[0]
            for m in IDENT.finditer(code):
                t1 = time.time()
                c09.request_all(s, "cycles", path, ln, (m.start() + m.end()) // 2, acc, f"{desc}:{rel}", extra_tags=tags)
                if time.time() - t1 > REQUEST_BUDGET_S * len(c09.METHODS):
                    slow.append(("positional", rel, ln, m.group(0)))
            # member access: also the position right after a '%'
            for m in re.finditer(r"%", code):
                c09.request_all(s, "cycles", path, ln, m.end(), acc, f"{desc}:{rel}", methods=["textDocument/completion", "textDocument/hover"], extra_tags=tags)
        for method, params in (("textDocument/documentSymbol", {"textDocument": Server.tdpp(path, 0, 0)["textDocument"]}),
                               ("workspace/symbol", {"query": ""})):
            r, _ = s.request(method, params)
            if "error" in r:
                site, exc = c09._site(r["error"])
                acc.violation(Violation("cycles", {"family": "cycles", "method": method.split("/")[1], "obs": "error", "site": site, "exc": exc, **tags},
                                        {"shape": shape, "n": n, "placement": placement, "order": order, "file": rel}, "result", str(r["error"].get("message"))[:200], what=desc))
            else:
                c09.check_result(s, "cycles", method, r["result"], None, {"shape": shape, "n": n, "placement": placement, "order": order, "file": rel}, acc, tags)
    # second pass: every file is edited on disk and saved, then edited in the buffer
    # (re-parse, re-resolution of includes and links on an index that already has them)
    for rel, text in sorted(files.items()):
        if rel.endswith(".h"):
            continue
        path = os.path.join(sc.path, rel)
        for phase in ("disk", "buffer"):
            t1 = time.time()
            new_text = text + ("\n! touched on disk\n" if phase == "disk" else "\n! touched in buffer\n\n")
            if phase == "disk":
                with open(path, "w") as fh:
                    fh.write(new_text)
                out = s.save(path)
            else:
                out = s.change(path, [{"text": new_text}])
            transcript += out
            if time.time() - t1 > REQUEST_BUDGET_S:
                slow.append((phase + "_edit", rel))
            for o in out:
                if "id" in o and "method" not in o:
                    acc.violation(Violation("cycles", {"family": "cycles", "method": phase + "_edit", "obs": "response_to_notification", **tags},
                                            {"shape": shape, "n": n, "placement": placement, "order": order}, None, str(o)[:200], what=desc))
                if o.get("method") == "window/showMessage" and o["params"].get("type") == 1:
                    acc.violation(Violation("cycles", {"family": "cycles", "method": phase + "_edit", "obs": "error_message", **tags},
                                            {"shape": shape, "n": n, "placement": placement, "order": order}, "no error message", o["params"]["message"][:200], what=f"{desc}: {o['params']['message'][:120]}"))
        lines = text.split("\n")
        for ln, line in enumerate(lines):
            m = IDENT.search(line.split("!")[0])
            if m:
                c09.request_all(s, "cycles", path, ln, (m.start() + m.end()) // 2, acc, f"{desc}:{rel}(edited)", extra_tags=tags,
                                methods=["textDocument/hover", "textDocument/definition", "textDocument/completion", "textDocument/references"])
    # still alive?
    r, _ = s.request("workspace/symbol", {"query": "zz_none"})
    if "result" not in r:
        acc.violation(Violation("cycles", {"family": "cycles", "method": "liveness", "obs": "error", **tags},
                                {"shape": shape, "n": n, "placement": placement, "order": order}, "result", str(r)[:200], what=desc))
    if "RecursionError" in str(transcript) or "maximum recursion" in str(transcript):
        acc.violation(Violation("cycles", {"family": "cycles", "method": "transcript", "obs": "recursion_text", **tags},
                                {"shape": shape, "n": n, "placement": placement, "order": order}, None, "RecursionError text in transcript", what=desc))
    for sl in slow:
        acc.violation(Violation("cycles", {"family": "cycles", "method": sl[0], "obs": "slow", **tags},
                                {"shape": shape, "n": n, "placement": placement, "order": order}, f"< {REQUEST_BUDGET_S}s", str(sl), what=desc))
    acc.case(nontrivial_key=desc, outcome=(shape, n))
    acc.count("workspaces")
    acc.count("wall_ms", int((time.time() - t0) * 1000))
    if len(acc.samples) < 2:
        acc.sample({"shape": shape, "n": n, "placement": placement, "files": files})


def on_timeout(case, acc: Acc):
    shape, n, placement = case[:3]
    order = case[3] if len(case) > 3 else "sorted"
    acc.violation(Violation("cycles", {"family": "cycles", "method": "any", "obs": "timeout", "shape": shape},
                            {"shape": shape, "n": n, "placement": placement, "order": order}, "bounded time", "workspace exceeded the time budget",
                            what=f"{shape} n={n} {placement} {order}"))


def main(ctx):
    nmax = 4 if ctx.quick else 6
    ctx.rule = (f"every shape of the cycle catalogue ({len(SHAPES)} shapes) x cycle length 1..{nmax} x placement (one file / "
                "unit per file; there in three start-up load orders: sorted, reversed, rotated); per workspace: start-up indexing, didOpen+didSave of every file, nine positional requests "
                "at every identifier and after every '%', documentSymbol, workspace/symbol. Non-trivial: all; distinct by "
                "(shape, length, placement); evaluations counts requests.")
    ctx.assumptions = [f"time budget {REQUEST_BUDGET_S}s per request, 45 s per workspace (watchdog)",
                       "the recursion limit is the one the server sets itself (1000)"]
    jobs = [(sh, n, pl, od) for sh in SHAPES for n in range(1, nmax + 1) for pl in ("single", "files")
            for od in (ORDERS if pl == "files" and n > 1 else ORDERS[:1])]
    acc = core.pmap(run_case, jobs, chunk=1, budget_s=45, on_timeout=on_timeout, label="C20")
    ctx.add_family("cycles", acc, shapes=len(SHAPES), max_length=nmax)


def replay(rec):
    c = rec["case"]
    acc = Acc()
    run_case((c["shape"], c["n"], c["placement"], c.get("order", "sorted")), acc)
    return [v.to_json("C20") for v in acc.violations] or None
