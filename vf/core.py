"""Shared machinery: context, parallel bounded-exhaustive runner with hard
watchdog, evidence writer, violation/replay files, known findings.

Everything here is deliberately small and deterministic.  The verdict of a check
never depends on VERIF_SEED: the seed only rotates which explored cases are
written out as samples.
"""
from __future__ import annotations

import hashlib
import json
import multiprocessing as mp
import os
import sys
import time
import traceback
from dataclasses import dataclass, field

VERIF = os.path.dirname(os.path.dirname(os.path.abspath(__file__)))
REPO = os.environ.get("VERIF_REPO", "/repo")
# where evidence/ and replays/ are written: /verif, unless a run against another tree (a seeded change in a scratch
# worktree) asks for its own place so that the committed evidence always describes /repo
OUT = os.environ.get("VERIF_OUT") or VERIF
NPROC = int(os.environ.get("VERIF_NPROC", "0")) or min(16, os.cpu_count() or 1)


def _scratch_base():
    """One scratch root per run (under /dev/shm), removed when the top-level process exits: workers that are
    killed by the watchdog cannot clean up after themselves."""
    import atexit
    import shutil
    import tempfile

    inherited = os.environ.get("VF_SCRATCH_RUN")
    if inherited and os.path.isdir(inherited):
        return inherited
    base = tempfile.mkdtemp(prefix="vfrun-", dir="/dev/shm" if os.path.isdir("/dev/shm") else "/tmp")
    os.environ["VF_SCRATCH_RUN"] = base
    pid = os.getpid()

    def _rm():
        if os.getpid() == pid:
            shutil.rmtree(base, ignore_errors=True)

    atexit.register(_rm)
    return base


SCRATCH_BASE = _scratch_base()


def install_repo_on_path():
    """Make `import fortls` resolve to the working tree under test."""
    if sys.path[0] != REPO:
        sys.path.insert(0, REPO)
    import fortls  # noqa

    got = os.path.dirname(os.path.dirname(os.path.abspath(fortls.__file__)))
    if os.path.realpath(got) != os.path.realpath(REPO):
        raise HarnessError(f"fortls imported from {got}, expected {REPO}")


class HarnessError(Exception):
    """The harness itself is broken (exit status 2, never a VIOLATION)."""


def h64(obj) -> int:
    """Stable 64-bit hash of a JSON-able / repr-able object."""
    if not isinstance(obj, (bytes, bytearray)):
        obj = repr(obj).encode("utf-8", "surrogatepass")
    return int.from_bytes(hashlib.blake2b(obj, digest_size=8).digest(), "big")


def digest(obj) -> str:
    s = json.dumps(obj, sort_keys=True, default=repr, ensure_ascii=True)
    return hashlib.sha256(s.encode()).hexdigest()[:16]


# --------------------------------------------------------------------------
# Violations
# --------------------------------------------------------------------------
@dataclass
class Violation:
    """One failing case.

    tags     discriminating features: family, input feature, observation class.
             Known findings are matched on these (see Findings).
    case     everything needed to re-execute the case without the explorer.
    expected / observed   for the human reader.
    """

    family: str
    tags: dict
    case: dict
    expected: object = None
    observed: object = None
    what: str = ""

    def to_json(self, prop):
        return {
            "property": prop,
            "family": self.family,
            "tags": self.tags,
            "case": self.case,
            "expected": self.expected,
            "observed": self.observed,
            "what": self.what,
        }


# --------------------------------------------------------------------------
# Per-chunk accumulation (runs inside workers, merged in the parent)
# --------------------------------------------------------------------------
VIOL_CAP_PER_CHUNK = 40


@dataclass
class Acc:
    evaluations: int = 0
    nontrivial: set = field(default_factory=set)
    outcomes: set = field(default_factory=set)
    counters: dict = field(default_factory=dict)
    violations: list = field(default_factory=list)
    viol_count: int = 0
    viol_classes: dict = field(default_factory=dict)
    samples: list = field(default_factory=list)
    states: set = field(default_factory=set)
    succ: list = field(default_factory=list)  # BFS successors found by workers

    def count(self, key, n=1):
        self.counters[key] = self.counters.get(key, 0) + n

    def case(self, nontrivial_key=None, outcome=None):
        self.evaluations += 1
        if nontrivial_key is not None:
            self.nontrivial.add(h64(nontrivial_key))
        if outcome is not None:
            self.outcomes.add(h64(outcome))

    def violation(self, v: Violation):
        self.viol_count += 1
        # keep at least one representative of every tag class, and the first few
        cls = digest(v.tags)
        n = self.viol_classes.get(cls, 0)
        self.viol_classes[cls] = n + 1
        if n < 3 and len(self.violations) < 4000:
            self.violations.append(v)

    def sample(self, s, cap=3):
        if len(self.samples) < cap:
            self.samples.append(s)

    def merge(self, o: "Acc"):
        self.evaluations += o.evaluations
        self.nontrivial |= o.nontrivial
        self.outcomes |= o.outcomes
        self.states |= o.states
        self.succ.extend(o.succ)
        for k, v in o.counters.items():
            self.counters[k] = self.counters.get(k, 0) + v
        self.viol_count += o.viol_count
        for v in o.violations:
            cls = digest(v.tags)
            n = self.viol_classes.get(cls, 0)
            if n < 3 and len(self.violations) < 4000:
                self.violations.append(v)
            self.viol_classes[cls] = n + 1
        # classes counted in o but whose representatives were dropped there
        for cls, n in o.viol_classes.items():
            have = sum(1 for v in o.violations if digest(v.tags) == cls)
            if n > have:
                self.viol_classes[cls] = self.viol_classes.get(cls, 0) + (n - have)
        for s in o.samples:
            if len(self.samples) < 12:
                self.samples.append(s)


# --------------------------------------------------------------------------
# Parallel runner with watchdog
# --------------------------------------------------------------------------
def _worker_main(wid, fn, init, task_q, res_q, progress, hb):
    try:
        if init is not None:
            init()
    except BaseException:
        res_q.put(("fatal", wid, traceback.format_exc()))
        return
    while True:
        task = task_q.get()
        if task is None:
            res_q.put(("bye", wid, None))
            return
        cid, start, chunk = task
        acc = Acc()
        try:
            for i in range(start, len(chunk)):
                progress[wid * 2] = cid
                progress[wid * 2 + 1] = i
                hb[wid] = time.monotonic()
                fn(chunk[i], acc)
            hb[wid] = 0.0
            res_q.put(("done", wid, (cid, acc)))
        except BaseException:
            hb[wid] = 0.0
            res_q.put(("fatal", wid, traceback.format_exc() + f"\ncase={chunk[i]!r}"))
            return


class Timeout:
    """Marker passed to on_timeout(case, acc): the case exceeded its budget."""


def pmap(fn, cases, *, init=None, chunk=64, budget_s=20.0, nproc=None, on_timeout=None,
         label="", max_timeouts=48):
    """Run fn(case, acc) for every case, in worker processes, and return the
    merged Acc.  `cases` is any iterable of picklable cases (consumed lazily).

    Watchdog: a case that runs longer than `budget_s` gets its worker killed;
    `on_timeout(case, acc)` records it (normally as a violation) and the rest
    of the chunk is re-queued.  Exceptions escaping fn are harness errors.
    After `max_timeouts` timed-out cases the family is abandoned (the violations are already recorded; a tree on
    which thousands of cases hang would otherwise keep the run busy for hours): counter `aborted_after_timeouts`.
    """
    nproc = nproc or NPROC
    ctx = mp.get_context("fork")
    total = Acc()
    it = iter(cases)

    def next_chunk():
        out = []
        for c in it:
            out.append(c)
            if len(out) >= chunk:
                break
        return out

    if nproc <= 1 or os.environ.get("VERIF_SERIAL"):
        if init is not None:
            init()
        while True:
            ch = next_chunk()
            if not ch:
                break
            for c in ch:
                fn(c, total)
        return total

    task_q = ctx.Queue(maxsize=nproc * 2)
    res_q = ctx.Queue()
    progress = ctx.RawArray("q", nproc * 2)
    hb = ctx.RawArray("d", nproc)
    workers = {}
    inflight = {}  # cid -> chunk
    owner = {}  # wid -> cid (last known)

    def spawn(wid):
        p = ctx.Process(target=_worker_main, args=(wid, fn, init, task_q, res_q, progress, hb))
        p.daemon = False
        p.start()
        workers[wid] = p

    for w in range(nproc):
        hb[w] = 0.0
        spawn(w)

    next_cid = 0
    exhausted = False
    requeue = []
    fatal = None
    aborted = False
    ntimeouts = 0
    try:
        while True:
            # feed
            while not task_q.full():
                if requeue:
                    task_q.put(requeue.pop())
                    continue
                if exhausted:
                    break
                ch = next_chunk()
                if not ch:
                    exhausted = True
                    break
                inflight[next_cid] = ch
                task_q.put((next_cid, 0, ch))
                next_cid += 1
            if exhausted and not inflight and not requeue:
                break
            # collect
            try:
                kind, wid, payload = res_q.get(timeout=0.25)
            except Exception:
                kind = None
            if kind == "done":
                cid, acc = payload
                inflight.pop(cid, None)
                total.merge(acc)
            elif kind == "fatal":
                fatal = payload
                break
            # watchdog
            now = time.monotonic()
            for wid, p in list(workers.items()):
                t0 = hb[wid]
                if t0 and now - t0 > budget_s:
                    cid, idx = progress[wid * 2], progress[wid * 2 + 1]
                    p.kill()
                    p.join()
                    hb[wid] = 0.0
                    ch = inflight.get(cid)
                    if ch is not None:
                        case = ch[idx]
                        if on_timeout is None:
                            fatal = f"case exceeded {budget_s}s budget: {case!r}"
                            break
                        on_timeout(case, total)
                        total.evaluations += 1
                        ntimeouts += 1
                        if ntimeouts >= max_timeouts:
                            total.counters["aborted_after_timeouts"] = ntimeouts
                            aborted = True
                            break
                        # results of cases before idx in this chunk are lost with
                        # the worker: redo them (idempotent), skip the offender.
                        rest = ch[:idx] + ch[idx + 1 :]
                        inflight[cid] = rest
                        if rest:
                            requeue.append((cid, 0, rest))
                        else:
                            inflight.pop(cid, None)
                    spawn(wid)
                elif not p.is_alive() and p.exitcode not in (0, None):
                    fatal = f"worker {wid} died with exit code {p.exitcode}"
                    break
            if fatal or aborted:
                break
    finally:
        if fatal or aborted:
            for p in workers.values():
                if p.is_alive():
                    p.kill()
        else:
            for _ in workers:
                task_q.put(None)
        for p in workers.values():
            p.join(timeout=10)
            if p.is_alive():
                p.kill()
        task_q.cancel_join_thread()
        res_q.cancel_join_thread()
    if fatal:
        raise HarnessError(f"{label}: {fatal}")
    return total


# --------------------------------------------------------------------------
# Known findings
# --------------------------------------------------------------------------
class Findings:
    """known_findings.json: committed, never written at run time.

    entry = {id, property, status: "open"|"fixed", match: {tag: value|[values]},
             what, witness, commit?}
    An open entry matches a violation iff every key of `match` is present in the
    violation's tags with an equal value (or a value in the list).  Tags pin the
    family, the discriminating input feature and the class of wrong observation,
    so the same input failing differently is still a VIOLATION.
    """

    def __init__(self, prop):
        path = os.path.join(VERIF, "known_findings.json")
        self.entries = []
        if os.path.exists(path):
            with open(path) as f:
                data = json.load(f)
            self.entries = [e for e in data.get("findings", []) if e["property"] == prop]
        self.hits = {}

    def match(self, v: Violation):
        for e in self.entries:
            if e.get("status") != "open":
                continue
            ok = True
            for k, want in e["match"].items():
                have = v.tags.get(k, None)
                if isinstance(want, list):
                    if have not in want:
                        ok = False
                        break
                elif have != want:
                    ok = False
                    break
            if ok:
                self.hits[e["id"]] = self.hits.get(e["id"], 0) + 1
                return e
        return None


# --------------------------------------------------------------------------
# Context = one run of one check
# --------------------------------------------------------------------------
class Context:
    def __init__(self, prop, tier, seed, level):
        self.prop = prop
        self.tier = tier
        self.seed = seed
        self.level = level
        self.t0 = time.time()
        self.acc = Acc()
        self.families = {}
        self.coverage_extra = {}
        self.assumptions = []
        self.rule = ""
        self.findings = Findings(prop)
        self.exhaustive = True
        self.caps = []
        self.states = None
        self.transitions = None
        self.traces_validated = None

    @property
    def quick(self):
        return self.tier == "quick"

    def log(self, *a):
        print(f"[{self.prop} {time.time() - self.t0:6.1f}s]", *a, flush=True)

    def add_family(self, name, acc: Acc, **info):
        """Merge one family's result and remember its per-family numbers."""
        self.families[name] = {
            "evaluations": acc.evaluations,
            "distinct_nontrivial": len(acc.nontrivial),
            "distinct_outcomes": len(acc.outcomes),
            "violations": acc.viol_count,
            **{k: v for k, v in acc.counters.items()},
            **info,
        }
        if acc.counters.get("aborted_after_timeouts"):
            self.cap_hit(f"family {name} abandoned after {acc.counters['aborted_after_timeouts']} timed-out cases (all reported)")
        self.acc.merge(acc)
        self.log(f"family {name}: {json.dumps(self.families[name], default=str)}")

    def cap_hit(self, text):
        self.exhaustive = False
        self.caps.append(text)

    # ---- finishing ------------------------------------------------------
    def finish(self):
        prop = self.prop
        rdir = os.path.join(OUT, "replays", prop)
        new_viol = []
        known_lines = {}
        dump = os.environ.get("VERIF_DUMP_KNOWN")     # (debugging aid: the violations that matched a known finding)
        dumped = []
        for v in self.acc.violations:
            e = self.findings.match(v)
            if e is not None:
                known_lines[e["id"]] = e
                if dump:
                    dumped.append({"id": e["id"], "tags": v.tags, "what": v.what})
            else:
                new_viol.append(v)
        if dump:
            with open(dump, "w") as f:
                json.dump(dumped, f, indent=1, default=repr)
        # Classes whose representatives were all matched are known; classes with
        # more hits than stored representatives share the tags of the stored ones.
        out_lines = []
        for fid, e in sorted(known_lines.items()):
            out_lines.append(f"KNOWN-FINDING: property={prop} {e['id']} {e['what']}")
        seen = set()
        replay_paths = []
        if os.path.isdir(rdir):  # replay files of earlier runs are stale
            for n in os.listdir(rdir):
                if n.endswith(".json"):
                    os.unlink(os.path.join(rdir, n))
        for v in new_viol:
            d = digest(v.to_json(prop))
            if d in seen:
                continue
            seen.add(d)
            os.makedirs(rdir, exist_ok=True)
            path = os.path.join(rdir, d + ".json")
            with open(path, "w") as f:
                json.dump(v.to_json(prop), f, indent=1, sort_keys=True, default=repr)
            replay_paths.append((path, v))
        stale = [e["id"] for e in self.findings.entries
                 if e.get("status") == "open" and e["id"] not in known_lines]
        ev = self._evidence(len(new_viol), sorted(known_lines), stale)
        os.makedirs(os.path.join(OUT, "evidence"), exist_ok=True)
        with open(os.path.join(OUT, "evidence", prop + ".json"), "w") as f:
            json.dump(ev, f, indent=1, default=repr)
        for line in out_lines:
            print(line)
        shown = 0
        for path, v in replay_paths:
            if shown < 25:
                print(f"VIOLATION property={prop} replay={path}")
                print(f"    family={v.family} tags={json.dumps(v.tags, default=repr)} {v.what}")
            shown += 1
        if shown > 25:
            print(f"... {shown - 25} more violation files under {rdir}")
        cov = ev["coverage"]
        print(
            f"{prop} tier={self.tier} evaluations={cov['evaluations']} "
            f"distinct_nontrivial={cov['distinct_nontrivial']} outcomes={cov.get('distinct_outcomes')} "
            f"states={cov.get('states')} transitions={cov.get('transitions')} "
            f"violations={len(new_viol)} known={len(known_lines)} wall={ev['wall_s']}s "
            f"exhaustive={cov['exhaustive']}"
        )
        return 1 if new_viol else 0

    def _evidence(self, nviol, known, stale):
        rot = self.seed % max(1, len(self.acc.samples)) if self.acc.samples else 0
        samples = self.acc.samples[rot:] + self.acc.samples[:rot]
        cov = {
            "evaluations": self.acc.evaluations,
            "distinct_nontrivial": len(self.acc.nontrivial),
            "rule": self.rule,
            "samples": samples[:6] or ["<none>"],
            "distinct_outcomes": len(self.acc.outcomes),
            "exhaustive": self.exhaustive,
            "caps_hit": self.caps,
            "families": self.families,
            "known_findings_matched": known,
            "stale_findings": stale,
            "violations_total_including_known": self.acc.viol_count,
        }
        if self.states is not None:
            cov["states"] = self.states
            cov["transitions"] = self.transitions
        if self.traces_validated is not None:
            cov["traces_validated_against_impl"] = self.traces_validated
        cov.update(self.coverage_extra)
        return {
            "property_id": self.prop,
            "tier": self.tier,
            "seed": self.seed,
            "level": self.level,
            "coverage": cov,
            "assumptions": self.assumptions,
            "wall_s": round(time.time() - self.t0, 2),
            "violations": nviol,
        }
