"""Reference model of an LSP client's text document (C02).

The document is one Python string.  Line breaks are "\r\n" | "\n" | "\r"
(LSP 3.17, "Text Documents").  A position is (line, character); by default the
character offset counts UTF-16 code units (LSP default position encoding).
"""
from __future__ import annotations

import re

_BREAK = re.compile(r"\r\n|\n|\r")


def split_lines(text: str) -> list[str]:
    return _BREAK.split(text)


def line_starts(text: str) -> list[int]:
    starts = [0]
    for m in _BREAK.finditer(text):
        starts.append(m.end())
    return starts


def _utf16_to_index(line: str, ch: int) -> int:
    """Index into `line` (code points) of the UTF-16 offset `ch` (clamped)."""
    units = 0
    for i, c in enumerate(line):
        if units >= ch:
            return i
        units += 2 if ord(c) > 0xFFFF else 1
    return len(line)


def utf16_len(line: str) -> int:
    return sum(2 if ord(c) > 0xFFFF else 1 for c in line)


def offset(text: str, line: int, ch: int) -> int:
    starts = line_starts(text)
    lines = split_lines(text)
    if line >= len(lines):
        return len(text)
    return starts[line] + _utf16_to_index(lines[line], ch)


def apply(text: str, change: dict) -> str:
    rng = change.get("range")
    new = change.get("text", "")
    if rng is None:
        return new
    a = offset(text, rng["start"]["line"], rng["start"]["character"])
    b = offset(text, rng["end"]["line"], rng["end"]["character"])
    return text[:a] + new + text[b:]


def positions(text: str):
    """Every valid position of the document: (line, 0..len(line))."""
    out = []
    for i, ln in enumerate(split_lines(text)):
        for c in range(utf16_len(ln) + 1):
            # positions inside a surrogate pair are not valid positions
            out.append((i, c))
    return out


def seam_crlf(text: str, change: dict) -> bool:
    """Does the edit bring a "\r" and a "\n" together that were not one break
    before (or split an existing "\r\n")?  The line-list representation cannot
    follow that."""
    rng = change.get("range")
    if rng is None:
        return False
    new = change.get("text", "")
    a = offset(text, rng["start"]["line"], rng["start"]["character"])
    b = offset(text, rng["end"]["line"], rng["end"]["character"])
    pre, suf = text[:a], text[b:]
    if new:
        return (pre.endswith("\r") and new.startswith("\n")) or (new.endswith("\r") and suf.startswith("\n"))
    return pre.endswith("\r") and suf.startswith("\n")
