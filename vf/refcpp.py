"""Reference C preprocessor model (C08): conditional stack, macro table, #if
expression evaluation, object- and function-like substitution.

Written from the C standard's description, independently of fortls; the
conditional part is cross-validated against GNU cpp (tests/test_refcpp.py and
the thorough tier of C08).  `Invalid` means the reference is undefined for the
input (a constraint violation such as an empty #if expression): such cases are
excluded from the comparison, never reported.
"""
from __future__ import annotations

import posixpath
import re
import subprocess


class Invalid(Exception):
    pass


_TOK = re.compile(r"\s*(?:(\d+)|([A-Za-z_]\w*)|(\|\||&&|==|!=|<=|>=|[!<>()+\-*/%]))")
_PREC = {"||": 1, "&&": 2, "==": 3, "!=": 3, "<": 4, ">": 4, "<=": 4, ">=": 4, "+": 5, "-": 5, "*": 6, "/": 6, "%": 6}


def _tokens(s):
    out, i = [], 0
    s = s.strip()
    while i < len(s):
        m = _TOK.match(s, i)
        if not m:
            raise Invalid(f"bad character at {s[i:]!r}")
        out.append(m.group(1) or m.group(2) or m.group(3))
        i = m.end()
    return out


def _expand(toks, defs, hide=frozenset()):
    out, i = [], 0
    while i < len(toks):
        t = toks[i]
        if t == "defined":
            if i + 1 < len(toks) and toks[i + 1] == "(":
                out += toks[i:i + 4]
                i += 4
            else:
                out += toks[i:i + 2]
                i += 2
            continue
        if re.match(r"[A-Za-z_]", t) and t in defs and t not in hide and isinstance(defs[t], str):
            out += _expand(_tokens(defs[t]), defs, hide | {t})
        else:
            out.append(t)
        i += 1
    return out


def eval_if(expr: str, defs: dict) -> bool:
    """Shunting-yard evaluation of a #if expression (C semantics, ints)."""
    toks = _expand(_tokens(expr), defs)
    if not toks:
        raise Invalid("#if with no expression")
    vals, ops = [], []

    def apply():
        op = ops.pop()
        if op in ("u!", "u-", "u+"):
            if not vals:
                raise Invalid("missing operand")
            a = vals.pop()
            vals.append({"u!": int(not a), "u-": -a, "u+": a}[op])
            return
        if len(vals) < 2:
            raise Invalid("missing operand")
        b, a = vals.pop(), vals.pop()
        if op in ("/", "%") and b == 0:
            raise Invalid("division by zero")
        q = abs(a) // abs(b) * (1 if (a >= 0) == (b >= 0) else -1) if op in ("/", "%") else 0
        vals.append({
            "||": lambda: int(bool(a) or bool(b)), "&&": lambda: int(bool(a) and bool(b)),
            "==": lambda: int(a == b), "!=": lambda: int(a != b), "<": lambda: int(a < b), ">": lambda: int(a > b),
            "<=": lambda: int(a <= b), ">=": lambda: int(a >= b), "+": lambda: a + b, "-": lambda: a - b,
            "*": lambda: a * b, "/": lambda: q, "%": lambda: a - b * q,
        }[op]())

    i, expect_operand = 0, True
    while i < len(toks):
        t = toks[i]
        if expect_operand:
            if t == "defined":
                if i + 1 < len(toks) and toks[i + 1] == "(":
                    if i + 3 >= len(toks) or toks[i + 3] != ")" or not re.match(r"[A-Za-z_]", toks[i + 2]):
                        raise Invalid("bad defined()")
                    vals.append(int(toks[i + 2] in defs))
                    i += 4
                else:
                    if i + 1 >= len(toks) or not re.match(r"[A-Za-z_]", toks[i + 1]):
                        raise Invalid("bad defined")
                    vals.append(int(toks[i + 1] in defs))
                    i += 2
                expect_operand = False
                continue
            if t.isdigit():
                vals.append(int(t))
                expect_operand = False
            elif re.match(r"[A-Za-z_]", t):
                vals.append(0)  # identifiers left after expansion are 0
                expect_operand = False
            elif t in ("!", "-", "+"):
                ops.append("u" + t)
            elif t == "(":
                ops.append("(")
            else:
                raise Invalid(f"unexpected {t}")
        else:
            if t == ")":
                while ops and ops[-1] != "(":
                    apply()
                if not ops:
                    raise Invalid("unbalanced )")
                ops.pop()
            elif t in _PREC:
                while ops and ops[-1] != "(" and (ops[-1].startswith("u") or _PREC[ops[-1]] >= _PREC[t]):
                    apply()
                ops.append(t)
                expect_operand = True
            else:
                raise Invalid(f"unexpected {t}")
        i += 1
    if expect_operand:
        raise Invalid("dangling operator")
    while ops:
        if ops[-1] == "(":
            raise Invalid("unbalanced (")
        apply()
    if len(vals) != 1:
        raise Invalid("malformed")
    return bool(vals[0])


_DIRECTIVE = re.compile(r"\s*#\s*(\w+)\s*(.*)$")
_DEFINE = re.compile(r"([A-Za-z_]\w*)(\(([^)]*)\))?\s?(.*)$")


def resolve_include(name, cur_dir, headers):
    """The key of `headers` that `#include "name"` written in a file of directory `cur_dir` opens, or None.  Keys and
    `cur_dir` are '/'-separated paths relative to the directory of the main file ('' is that directory).  Like cpp
    (and the operating system) the name is taken relative to the directory of the *including file*; every directory
    that is stepped through - also one that a later `..` leaves again - has to exist, i.e. be a prefix of some key."""
    dirs = {""}
    for k in headers:
        parts = k.split("/")[:-1]
        for n in range(1, len(parts) + 1):
            dirs.add("/".join(parts[:n]))
    if name.startswith("/") or name.endswith("/"):
        return None
    at = [c for c in cur_dir.split("/") if c]
    comps = name.split("/")
    for c in comps[:-1]:
        if c in ("", "."):
            continue
        if c == "..":
            if not at:
                return None        # above the directory of the main file: not part of the model
            at.pop()
        else:
            at.append(c)
        if "/".join(at) not in dirs:
            return None
    if comps[-1] in (".", ".."):
        return None
    key = posixpath.join("/".join(at), comps[-1])
    return key if key in headers else None


def splice(lines):
    """Physical lines -> [(first index, number of physical lines, logical text)].  A *directive* line that ends in a
    backslash continues on the next line (translation phase 2: backslash-newline is deleted, whatever the
    directive and whether or not its region is active).  Code lines are left alone."""
    out, k = [], 0
    while k < len(lines):
        ln, n = lines[k], 1
        if _DIRECTIVE.match(ln):
            while ln.endswith("\\") and k + n < len(lines):
                ln = ln[:-1] + lines[k + n]
                n += 1
            if ln.endswith("\\"):
                raise Invalid("backslash at the end of the file")
        out.append((k, n, ln))
        k += n
    return out


def run(lines, init_defs, headers=None, _defs=None, _chain=(), redefine=True, events=None, _dir=""):
    """Process `lines`.  Returns (active: list[bool] - whether each line is in an
    active region; directive lines and their continuation lines are reported as False -, final macro table
    name -> body | (params, body)).  `headers` maps the paths usable in `#include "path"` (relative to the directory
    of the main file, '/'-separated) to their lines; an included header is processed in place with the current macro
    table (a header that includes itself is Invalid); a path is looked up relative to the directory of the file the
    directive is written in.
    A `#define` of a name that is already defined *replaces* the definition (cpp warns and goes on);
    `redefine=False` makes a redefinition with a different body Invalid instead (the ISO constraint), for families
    that leave it out.  `events`, if a list, receives ("redefine", name) for every such replacement."""
    defs = dict(init_defs) if _defs is None else _defs
    stack = []  # [parent_active, taken_now, was_taken, seen_else]
    active = []

    def is_active():
        return all(s[1] for s in stack)

    for _, nphys, ln in splice(lines):
        m = _DIRECTIVE.match(ln)
        if not m:
            active.append(is_active())
            continue
        active.extend([False] * nphys)
        kw, rest = m.group(1), m.group(2).strip()
        if kw in ("if", "ifdef", "ifndef"):
            parent = is_active()
            if not parent:
                stack.append([False, False, True, False])
                continue
            if kw == "if":
                c = eval_if(rest, defs)
            else:
                if not re.fullmatch(r"[A-Za-z_]\w*", rest):
                    raise Invalid("bad #ifdef")
                c = (rest in defs) == (kw == "ifdef")
            stack.append([True, c, c, False])
        elif kw == "elif":
            if not stack or stack[-1][3]:
                raise Invalid("#elif without #if")
            s = stack[-1]
            if not s[0] or s[2]:
                s[1] = False
            else:
                c = eval_if(rest, defs)
                s[1] = c
                s[2] = c
        elif kw == "else":
            if not stack or stack[-1][3]:
                raise Invalid("#else without #if")
            s = stack[-1]
            s[1] = s[0] and not s[2]
            s[2] = True
            s[3] = True
        elif kw == "endif":
            if not stack:
                raise Invalid("#endif without #if")
            stack.pop()
        elif kw == "define":
            if is_active():
                d = _DEFINE.match(rest)
                if not d:
                    raise Invalid("bad #define")
                name, body = d.group(1), d.group(4).strip()
                val = (tuple(p.strip() for p in d.group(3).split(",")) if d.group(3).strip() else (), body) if d.group(2) else body
                if name in defs and defs[name] != val:
                    if not redefine:
                        raise Invalid("redefinition with a different body")
                    if events is not None:
                        events.append(("redefine", name))
                    # the new definition takes the place of the old one in the table
                defs[name] = val
        elif kw == "undef":
            if is_active():
                # (tokens after the name are ignored with a warning)
                u = re.match(r"[A-Za-z_]\w*", rest)
                if not u:
                    raise Invalid("bad #undef")
                defs.pop(u.group(0), None)
        elif kw == "include" and headers is not None:
            if is_active():
                im = re.fullmatch(r'"([^"]+)"', rest)
                key = resolve_include(im.group(1), _dir, headers) if im else None
                if key is None:
                    raise Invalid("unknown header")
                if key in _chain:
                    raise Invalid("header includes itself")
                run(headers[key], None, headers, defs, _chain + (key,), redefine, events, posixpath.dirname(key))
        else:
            pass
    if stack:
        raise Invalid("unterminated conditional")
    return active, defs


# ------------------------------------------------------------- substitution
def substitute(line: str, defs: dict) -> str:
    """Replace macro uses in a code line (identifier boundaries; function-like macros need a following
    parenthesised list).  The result is rescanned: a body that mentions another macro is expanded further,
    whatever the order of the definitions; a macro whose body mentions its own name is applied once."""
    out = line
    for rnd in range(12):
        before = out
        for name, val in defs.items():
            body = val[1] if isinstance(val, tuple) else val
            if rnd and re.search(rf"(?<![\w$]){re.escape(name)}(?![\w$])", body):
                continue
            if isinstance(val, tuple):
                params, body = val
                out = _subst_fn(out, name, params, body)
            else:
                out = re.sub(rf"(?<![\w$]){re.escape(name)}(?![\w$])", lambda m: val, out)
        if out == before:
            break
    return out


def _split_args(s):
    args, depth, cur = [], 0, ""
    for ch in s:
        if ch == "," and depth == 0:
            args.append(cur)
            cur = ""
            continue
        depth += ch == "("
        depth -= ch == ")"
        cur += ch
    args.append(cur)
    return args


def _subst_fn(line, name, params, body):
    res, i = "", 0
    pat = re.compile(rf"(?<![\w$]){re.escape(name)}\s*\(")
    while True:
        m = pat.search(line, i)
        if not m:
            return res + line[i:]
        depth, j = 1, m.end()
        while j < len(line) and depth:
            depth += line[j] == "("
            depth -= line[j] == ")"
            j += 1
        if depth:
            return res + line[i:]
        args = [a.strip() for a in _split_args(line[m.end():j - 1])]
        if not params and args == [""]:
            args = []          # F() has no argument
        if len(args) != len(params):
            res += line[i:j]
            i = j
            continue
        amap = dict(zip(params, args))
        # an identifier starts at an identifier boundary: the x of `1x` is part of a number token
        rep = re.sub(r"(?<![\w$])[A-Za-z_]\w*", lambda t: amap.get(t.group(0), t.group(0)), body)
        res += line[i:m.start()] + rep
        i = j


# -------------------------------------------------------------- GNU cpp
def _gnu_args(init_defs):
    args = ["cpp", "-P", "-undef", "-nostdinc", "-w"]
    for n, v in init_defs.items():
        args.append(f"-D{n}={v}")
    return args


def _marked(lines):
    """Code lines replaced by markers; directives and their continuation lines verbatim."""
    marked = []
    for k, n, _ in splice(lines):
        if _DIRECTIVE.match(lines[k]):
            marked.extend(lines[k:k + n])
        else:
            marked.append(f"@@{k}@@")
    return marked


def gnu_cpp_active(lines, init_defs, timeout=20, cwd=None):
    """Which non-directive lines survive GNU cpp; None if cpp reports an error.  The text is read from standard
    input: `#include "..."` is looked up relative to `cwd`."""
    try:
        marked = _marked(lines)
    except Invalid:
        return None
    p = subprocess.run(_gnu_args(init_defs), input="\n".join(marked) + "\n", capture_output=True, text=True,
                       timeout=timeout, cwd=cwd)
    if p.returncode != 0:
        return None
    kept = {int(x) for x in re.findall(r"@@(\d+)@@", p.stdout)}
    return [(k in kept) for k in range(len(lines))]


def gnu_cpp_run(lines, init_defs, timeout=20, cwd=None):
    """(active, table) of GNU cpp in one process: `-dD` repeats every #define / #undef it executes between the
    surviving lines; the table is in the form of `run` (bodies with single blanks, the predefined `__...` names left
    out).  None if cpp reports an error."""
    try:
        marked = _marked(lines)
    except Invalid:
        return None
    p = subprocess.run(_gnu_args(init_defs) + ["-dD"], input="\n".join(marked) + "\n", capture_output=True, text=True,
                       timeout=timeout, cwd=cwd)
    if p.returncode != 0:
        return None
    table, kept = {}, set()
    for ln in p.stdout.splitlines():
        m = re.match(r"#define ([A-Za-z_]\w*)(\(([^)]*)\))?\s?(.*)$", ln)
        u = re.match(r"#undef ([A-Za-z_]\w*)", ln)
        if m and not m.group(1).startswith("__"):
            body = " ".join(m.group(4).split())
            table.pop(m.group(1), None)
            table[m.group(1)] = ((tuple(x.strip() for x in m.group(3).split(",")) if m.group(3).strip() else (), body)
                                 if m.group(2) else body)
        elif u:
            table.pop(u.group(1), None)
        else:
            kept.update(int(x) for x in re.findall(r"@@(\d+)@@", ln))
    return [(k in kept) for k in range(len(lines))], table


def normal_table(defs):
    """A table of `run` with the blanks of every body normalised like `gnu_cpp_run` does."""
    return {k: ((v[0], " ".join(v[1].split())) if isinstance(v, tuple) else " ".join(v.split())) for k, v in defs.items()}
