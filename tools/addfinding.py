#!/usr/bin/env python3
"""addfinding.py <Did> <Cnn> <commit|open> <what> <witness-json> [match-json]: append an entry to known_findings.json."""
import json, sys
did, prop, commit, what, wit = sys.argv[1:6]
p = "/verif/known_findings.json"
k = json.load(open(p))
assert all(f["id"] != did for f in k["findings"]), did
if commit == "open":
    e = {"id": did, "property": prop, "status": "open", "match": json.loads(sys.argv[6]), "what": what, "witness": json.loads(wit)}
else:
    e = {"id": did, "property": prop, "status": "fixed", "commit": commit, "what": f"fixed: property={prop} {commit} {what}", "witness": json.loads(wit)}
k["findings"].append(e)
json.dump(k, open(p, "w"), indent=1, ensure_ascii=False)
print("added", did)
