#!/bin/sh
# try_patch.sh <patch.diff> <PID> [tier]: run a property's check against a scratch worktree with the patch applied
DIFF=$(realpath "$1"); P=$2; T=${3:-quick}
WT=/dev/shm/try_$P
git -C /repo worktree add -q --detach "$WT" HEAD || exit 2
if git -C "$WT" apply "$DIFF"; then
  cd /verif && VERIF_REPO=$WT VERIF_OUT=$WT/.vf_out ./run "$P" --tier "$T" 2>&1 | grep "^$P tier\|HARNESS" | cut -c1-220
else echo "NOAPPLY"; fi
git -C /repo worktree remove --force "$WT"
