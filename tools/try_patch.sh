#!/bin/sh
# try_patch.sh <patch.diff> <PID> [tier]: run a property's check against a scratch worktree with the patch applied
DIFF=$(realpath "$1"); P=$2; T=${3:-quick}
WT=/dev/shm/try_$P
git -C /repo worktree add -q --detach "$WT" HEAD || exit 2
if git -C "$WT" apply "$DIFF"; then
  cd /verif && VERIF_REPO=$WT VERIF_OUT=$WT/.vf_out ./run "$P" --tier "$T" 2>&1 | grep "^$P tier\|HARNESS" | cut -c1-220
  python3 -c "
import json,sys
d=json.load(open('$WT/.vf_out/evidence/$P.json'))
print('families with violations:', {k:v.get('violations') for k,v in d['coverage']['families'].items() if v.get('violations')})
" 2>/dev/null
else echo "NOAPPLY"; fi
git -C /repo worktree remove --force "$WT"
