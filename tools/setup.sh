#!/bin/sh
# Offline setup: nothing to build (pure Python under /venv); run the framework's
# own unit tests as a smoke test of the reference models.
cd "$(dirname "$0")/.." || exit 2
export PYTHONDONTWRITEBYTECODE=1
/venv/bin/python -m vf.selftest || exit 1
