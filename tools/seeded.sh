#!/bin/sh
# For every seeded change: apply it to a scratch worktree of /repo's HEAD, run the
# property's quick check against that worktree (VERIF_REPO) and report whether it
# was detected.  /repo itself is never touched; evidence and replay files of these runs go to the scratch worktree
# (VERIF_OUT), so /verif/evidence keeps describing /repo.  Usage: tools/seeded.sh [name-prefix]
cd "$(dirname "$0")/.." || exit 2
rc=0
for d in seeded/${1:-}*/; do
  n=$(basename "$d"); p=$(python3 -c "import json;print(json.load(open('$d/meta.json'))['property'])")
  wt=/dev/shm/seeded_$n
  git -C /repo worktree add -q --detach "$wt" HEAD || exit 2
  if git -C "$wt" apply "$PWD/$d/patch.diff" 2>/dev/null; then
    out=$(VERIF_REPO=$wt VERIF_OUT=$wt/.vf_out ./run "$p" --tier quick 2>&1 | grep -c '^VIOLATION')
    if [ "$out" -gt 0 ]; then echo "DETECTED $n ($p): $out violation lines"; else echo "MISSED   $n ($p)"; rc=1; fi
  else
    echo "NOAPPLY  $n ($p)"; rc=1
  fi
  git -C /repo worktree remove --force "$wt"
done
exit $rc
