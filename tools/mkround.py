#!/usr/bin/env python3
"""mkround.py <round-dir> <hints.json>: for every property id in hints.json create <round-dir>/<id>/wt (a detached scratch
worktree of /repo's HEAD) and <round-dir>/<id>/TASK.md, the complete brief of an independent sub-agent: the property's
text, the suite command, an area hint, the deliverables.  Nothing of /verif except the property text goes into it."""
import json, os, subprocess, sys

rd, hints = sys.argv[1], json.load(open(sys.argv[2]))
props = {json.loads(l)["id"]: json.loads(l) for l in open("/verif/properties.jsonl")}
for pid, h in hints.items():
    key = pid
    pid = pid.split("_")[0]          # C05_b -> C05: two agents for one property
    d = f"{rd}/{key}"
    os.makedirs(d, exist_ok=True)
    wt = f"{d}/wt"
    if not os.path.exists(wt):
        subprocess.check_call(["git", "-C", "/repo", "worktree", "add", "-q", "--detach", wt, "HEAD"])
    p = props[pid]
    open(f"{d}/TASK.md", "w").write(f"""# Task

You are given ONE semantic property of fortran-lang/fortls (a Fortran language server written in Python) and a scratch
git worktree of the repository at `{wt}` (work ONLY there and in `{d}`; never touch /repo or /verif, never read /verif).

## The property ({pid}: {p['title']})

{p['statement']}

It is quantified over: {p['quantifier']['text']}

Why the repository's tests cannot settle it: {p['why_tests_cant']}

Code anchors: {json.dumps(p['anchors'].get('mechanism', []))}

## What to produce

A *realistic* change to the fortls source (the kind of refactoring, optimisation, caching, clean-up or "small fix" a
maintainer might plausibly make) that BREAKS this property while

* the package still imports and the repository's whole test suite still passes
  (run: `cd {wt} && TMPDIR=$(mktemp -d /dev/shm/st.XXXX) PYTHONPATH={wt} /venv/bin/python -m pytest -q -p no:cacheprovider --no-cov --timeout=900 --deselect test/test_interface.py::test_version_update_pypi -x -q 2>&1 | tail -5` — about 70-100 s; 179 tests must pass; do NOT use xdist), and
* the breakage needs something SPECIFIC to manifest — a particular multi-step sequence of requests/edits, an unusual
  but legal input, a particular order of files, two cooperating code sites that each look fine alone, state carried from
  one request to the next — not something ordinary use would expose at once.

Look for the change in this area of the code (so that it differs in kind from changes other people have already
written for this property): {h}.

Also write a demonstration `{d}/demo.py`: a self-contained Python program (run as
`PYTHONPATH={wt} /venv/bin/python {d}/demo.py`, imports `fortls` from PYTHONPATH, creates any files it needs in a fresh
temporary directory, drives the real code — in-process `LangServer` or a `python -m fortls` subprocess) that exits 0 on the
UNCHANGED tree and exits non-zero (assertion failure) WITH your change, and whose assertion is a direct consequence of
the property text above (not of incidental formatting).

An in-process server can be made like this:

    import io, json
    from fortls.interface import cli
    from fortls.jsonrpc import JSONRPC2Connection, ReadWriter
    from fortls.langserver import LangServer
    out = io.BytesIO()
    srv = LangServer(JSONRPC2Connection(ReadWriter(io.BytesIO(), out)), vars(cli("fortls").parse_args(["--nthreads","1"])))
    srv.handle({{"jsonrpc":"2.0","id":1,"method":"initialize","params":{{"rootPath": root}}}})
    # responses are appended to `out` as LSP frames; srv.handle(msg) for every further message

## Deliverables (all in `{d}`)

* `patch.diff` — `git -C {wt} diff` of your change (source files under fortls/ only; do not edit tests),
* `demo.py`,
* `REPORT.md` — what the change is, why it looks innocent, exactly what is needed for it to manifest, the output of the
  test suite with the change (last lines), the exit status of demo.py with and without the change.
  If, while working, you notice behaviour of the UNCHANGED tree that already violates the property text, describe it
  (with a minimal input) in a section "Defects of the unchanged tree".

Verify everything yourself before finishing: suite passes with the change; demo fails with the change; demo passes without
it (use `git -C {wt} apply -R {d}/patch.diff`, run, then re-apply). Leave the worktree with the change applied. Keep the
change small (a few lines to a few dozen).
""")
print(sorted(hints))
