#!/bin/sh
# confirm_mutant.sh <patch.diff> <demo.py> <label>
# In a fresh scratch worktree of /repo's HEAD: the repository suite passes with the change; the
# demonstration fails with it and passes without it.  (No `git stash`: the stash is shared by all worktrees.)
DIFF=$(realpath "$1"); DEMO=$(realpath "$2"); L=$3
WT=/dev/shm/confirm_$L
git -C /repo worktree add -q --detach "$WT" HEAD || exit 2
cd "$WT" || exit 2
if ! git apply "$DIFF"; then echo "$L NOAPPLY"; git -C /repo worktree remove --force "$WT"; exit 1; fi
S=$(/verif/tools/suite.sh "$WT" | head -1)
cp "$DEMO" "$WT/demo_confirm.py"
PYTHONPATH=$WT /venv/bin/python demo_confirm.py >/dev/null 2>&1; A=$?
git apply -R "$DIFF"
PYTHONPATH=$WT /venv/bin/python demo_confirm.py >/dev/null 2>&1; B=$?
echo "$L suite[$S] demo_with_change_exit=$A demo_without_change_exit=$B"
git -C /repo worktree remove --force "$WT"
