#!/bin/sh
# confirm_mutant.sh <worktree> <PID>: suite passes with the change; demo fails with it and passes without it.
WT=$1; P=$2
cd "$WT" || exit 2
S=$(/verif/tools/suite.sh "$WT" | head -1)
PYTHONPATH=$WT /venv/bin/python demo_$P.py >/dev/null 2>&1; A=$?
git stash -q
PYTHONPATH=$WT /venv/bin/python demo_$P.py >/dev/null 2>&1; B=$?
git stash pop -q
echo "$P suite[$S] demo_with_change_exit=$A demo_without_change_exit=$B"
