#!/usr/bin/env python3-vt
"""Validate MANIFEST.json and every evidence file against the schemas."""
import json, sys, glob, jsonschema
ok = True
m = json.load(open("/verif/MANIFEST.json"))
jsonschema.validate(m, json.load(open("/root/.vp/MANIFEST.schema.json")))
es = json.load(open("/root/.vp/EVIDENCE.schema.json"))
for c in m["checks"]:
    p = c["evidence_file"]
    try:
        e = json.load(open(p))
        jsonschema.validate(e, es)
        assert e["level"] == c["level_claimed"]["category"], "level mismatch"
        print("ok", p, e["tier"], e["coverage"].get("evaluations"), e.get("violations"))
    except Exception as ex:
        ok = False
        print("BAD", p, str(ex)[:300])
sys.exit(0 if ok else 1)
