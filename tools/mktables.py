#!/usr/bin/env python3
"""Regenerate the two generated tables of DESIGN.md (findings, seeded changes) from
known_findings.json and seeded/*/meta.json.  Usage: python3 tools/mktables.py"""
import glob
import json
import os
import re

ROOT = os.path.dirname(os.path.dirname(os.path.abspath(__file__)))


def esc(s):
    return str(s).replace("|", "\\|").replace("\n", " ")


def findings_table():
    k = sorted(json.load(open(os.path.join(ROOT, "known_findings.json")))["findings"], key=lambda e: e["id"])
    rows = ["| id | property | status | what fails |", "|----|----------|--------|------------|"]
    for e in k:
        what = re.sub(r"^fixed: property=C\d+ [0-9a-f]+ ", "", e["what"])
        st = f"fixed `{e['commit']}`" if e["status"] == "fixed" else "**open**"
        rows.append(f"| {e['id']} | {e['property']} | {st} | {esc(what)} |")
    fixed = [e for e in k if e["status"] == "fixed"]
    summary = (f"{len(fixed)} findings are fixed by {len({e['commit'] for e in fixed})} commits, "
               f"{len(k) - len(fixed)} are open.")
    return rows, summary


def seeded_table():
    rows = ["| seeded change | property | what it needs to manifest | caught by |", "|---|---|---|---|"]
    for mp in sorted(glob.glob(os.path.join(ROOT, "seeded", "*", "meta.json"))):
        m = json.load(open(mp))
        rows.append(f"| {m['id']} | {m['property']} | {esc(m['needs_to_manifest'])} | {esc(m['detected_by'])} |")
    return rows


SUMMARY = re.compile(r"^(C\d\d) tier=(\w+) evaluations=(\d+) distinct_nontrivial=(\d+) outcomes=(\S+) states=(\S+) "
                     r"transitions=(\S+) violations=(\d+) known=(\d+) wall=([\d.]+)s exhaustive=(\w+)")


def measured(log_paths):
    """Fold the summary lines of run logs into measured.json (committed; last value per property and tier wins)."""
    mp = os.path.join(ROOT, "measured.json")
    m = json.load(open(mp)) if os.path.exists(mp) else {}
    for lp in log_paths:
        for line in open(lp, errors="replace"):
            g = SUMMARY.match(line)
            if g:
                m.setdefault(g.group(1), {})[g.group(2)] = {
                    "evaluations": int(g.group(3)), "distinct_nontrivial": int(g.group(4)), "states": g.group(6),
                    "transitions": g.group(7), "violations": int(g.group(8)), "known": int(g.group(9)),
                    "wall_s": float(g.group(10)), "exhaustive": g.group(11)}
    json.dump(m, open(mp, "w"), indent=1, sort_keys=True)
    return m


def cost_table(m):
    rows = ["| property | quick: evaluations / states / wall | thorough: evaluations / states / wall |", "|---|---|---|"]
    for pid in sorted(m):
        cells = []
        for tier in ("quick", "thorough"):
            d = m[pid].get(tier)
            cells.append("—" if not d else f"{d['evaluations']:,} / {d['states'] if d['states'] != 'None' else '—'} / {d['wall_s']:.0f} s")
        rows.append(f"| {pid} | {cells[0]} | {cells[1]} |")
    return rows


def replace_table(text, header, rows):
    lines = text.split("\n")
    i = lines.index(header)
    j = i
    while j < len(lines) and lines[j].startswith("|"):
        j += 1
    return "\n".join(lines[:i] + rows + lines[j:])


def main():
    import sys

    p = os.path.join(ROOT, "DESIGN.md")
    text = open(p).read()
    m = measured(sys.argv[1:])
    crow = cost_table(m)
    if crow[0] in text:
        text = replace_table(text, crow[0], crow)
    frows, summary = findings_table()
    text = replace_table(text, frows[0], frows)
    text = re.sub(r"\d+ findings are fixed by \d+ commits, \d+ are open\.", summary, text)
    srows = seeded_table()
    text = replace_table(text, srows[0], srows)
    open(p, "w").write(text)
    print(summary, f"seeded={len(srows) - 2}")


if __name__ == "__main__":
    main()
