#!/bin/sh
# Determinism / seed-independence self-test: every quick check under three VERIF_SEED
# values must give the same verdict and the same number of evaluations and violations.
cd "$(dirname "$0")/.." || exit 2
rc=0
for c in ${*:-C01 C02 C03 C04 C05 C06 C07 C08 C09 C10 C11 C12 C13 C14 C15 C16 C17 C18 C19 C20}; do
  prev=""
  for s in 0 1 7; do
    VERIF_SEED=$s ./run $c --tier quick >/dev/null 2>&1; e=$?
    sig=$(python3 -c "import json;d=json.load(open('evidence/$c.json'));print($e, d['coverage']['evaluations'], d.get('violations'), d['coverage'].get('states'), d['coverage'].get('transitions'))")
    if [ -n "$prev" ] && [ "$prev" != "$sig" ]; then echo "DIFF $c seed=$s: [$prev] vs [$sig]"; rc=1; fi
    prev=$sig
  done
  echo "$c $prev"
done
exit $rc
