#!/usr/bin/env python3
"""mkmeta.py <Mname> <round> <change> <needs> <detected_by>: write seeded/<Mname>/meta.json from the intake logs."""
import json, os, re, subprocess, sys
n, rnd, change, needs, det = sys.argv[1:6]
d = f"/verif/seeded/{n}"
prop = "C" + re.match(r"M\d+_c(\d+)_", n).group(1)
conf = open(f"{d}/.confirm").read().strip().splitlines()[-1] if os.path.exists(f"{d}/.confirm") else ""
base = subprocess.check_output(["git", "-C", "/repo", "rev-parse", "--short", "HEAD"], text=True).strip()
json.dump({"id": n, "property": prop,
           "author": f"independent sub-agent given only the property text, a scratch worktree and a code-area hint (round {rnd})",
           "base_commit": base, "change": change, "needs_to_manifest": needs,
           "confirmed": {"how": f"tools/confirm_mutant.sh seeded/{n}/patch.diff seeded/{n}/demo.py {n}", "result": conf},
           "detected_by": det, "how_to_run": f"tools/seeded.sh {n.split('_')[0]}"}, open(f"{d}/meta.json", "w"), indent=1)
for f in (".confirm", ".try"):
    if os.path.exists(f"{d}/{f}"):
        os.remove(f"{d}/{f}")
print(open(f"{d}/meta.json").read()[:200])
