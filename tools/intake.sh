#!/bin/sh
# intake.sh <agent-dir> <Mname>: copy a sub-agent's patch.diff / demo.py to seeded/<Mname>/, confirm it (suite passes with
# the change, demo fails with it and passes without) and run the property's quick check against it.
A=$1; N=$2; P=$(echo "$N" | sed 's/^M[0-9]*_c\([0-9]*\)_.*/C\1/')
cd /verif || exit 2
mkdir -p "seeded/$N"
git -C "$A/wt" diff > "seeded/$N/patch.diff"
[ -s "seeded/$N/patch.diff" ] || cp "$A/patch.diff" "seeded/$N/patch.diff"
sed "s#$A/wt#/repo#g; s#$A#/tmp#g" "$A/demo.py" > "seeded/$N/demo.py"
tools/confirm_mutant.sh "seeded/$N/patch.diff" "seeded/$N/demo.py" "$N" | tee "seeded/$N/.confirm"
tools/try_patch.sh "seeded/$N/patch.diff" "$P" quick | tee "seeded/$N/.try"
