#!/usr/bin/env python3
"""Regenerates /verif/MANIFEST.json from the table below (single source)."""
import json
import os

VERIF = os.path.dirname(os.path.dirname(os.path.abspath(__file__)))

ALL = [f"C{i:02d}" for i in range(1, 21)]

CHECKS = {
    "C11": dict(
        category="exploration",
        technique="bounded-exhaustive enumeration of declaration grammar x documentation placements, procedures, and every cursor column of call argument lists; hover parsed back and compared with the model",
        text=("Exhaustive enumeration of declarations — 7 types x their kind/len selectors (incl. '*8', spaced 'kind = 8', "
              "nested function calls in the kind) x ordered attribute lists up to a length bound x entity forms (entity-level "
              "dimension and character length, initialisers, middle of three entities) x with/without '::' x 8 documentation "
              "placements (Doxygen '!>' before, '!<' trailing, FORD '!!' after, two-line blocks, a blank line in between, a '!>' "
              "block of the next entity right after), PARAMETER values with nested parentheses, arrays and strings, dummy "
              "arguments with INTENT/OPTIONAL; the hover is parsed back (TYPE[selector][, ATTR...] :: name [= value] + docs) "
              "and compared field by field with the model. Procedures with 0-3 dummies must list them in order with their "
              "declarations and documentation. Signature help is requested at every column of the argument list of 8 calls "
              "(positional, keyword, nested calls, parenthesised sub-expressions, strings containing ',' and '(') and must give "
              "the callee's parameter list and the active parameter computed by a reference scanner."),
        note=("Trusted: the hover parser and the reference signature scanner in vf/checks/c11.py. Comparison is modulo blanks "
              "and letter case; both orders of restating an entity-level character length are accepted; documentation of a "
              "multi-entity statement is not attributed to one entity."),
        design="DESIGN.md §4 C11",
    ),
    "C07": dict(
        category="fault_enumeration",
        technique="fault enumeration: every applicable (defect class, seeding position) pair on valid base programs, expected diagnostic derived from the seeding",
        text=("Valid part: the canonical corpus, programs using each bundled intrinsic module (with and without ONLY) and every "
              "generated structure tree of C04 up to a node budget must publish no error-severity diagnostic. Seeded part: 16 "
              "seeders for the 15 defect classes of the statement rewrite a base program (canonical corpus and small structure "
              "trees) at every applicable position — duplicate each declaration, declare each host variable in each contained "
              "procedure, replace the END of each block construct by a bare END, USE an unknown module in each unit and "
              "procedure, declare an object of a project type that is not accessible, delete each dummy's declaration, add an "
              "INTENT non-argument, double each CONTAINS, put CONTAINS/IMPLICIT/PUBLIC/PRIVATE in each file-level gap, IMPORT "
              "outside interface bodies, USE after each IMPLICIT, a procedure before each CONTAINS, a procedure inside each "
              "type/block, drop the implementation of a deferred binding, lengthen each assignment line — and the published "
              "diagnostics must contain one of that class, with its severity, on a line of the offending set, and no error of "
              "another class."),
        note=("Trusted: the line-structure scanner and seeders in vf/checks/c07.py; base programs are valid per gfortran. "
              "Where the defect is a relation between two statements either statement's line is accepted."),
        design="DESIGN.md §4 C07",
    ),
    "C06": dict(
        category="exploration",
        technique="bounded-exhaustive enumeration of occurrence-pattern programs x scope shapes x names with a source map; every entity from every occurrence; rename applied and re-indexed",
        text=("Exhaustive enumeration of generated programs: every sequence of <=2 (quick) / <=3 (thorough) distinct "
              "statement patterns from a 12-pattern alphabet (the name several times around single operator characters, in "
              "argument lists, after ';', across a continuation, in another letter case, inside comments and character "
              "literals, as a substring of longer identifiers) x 4 scope shapes (local; same spelling in an inner BLOCK and as "
              "a dummy argument; same spelling in another module used elsewhere; same spelling as a type component) x 4 names "
              "(incl. one with '$'). For every entity and every one of its occurrences as request position, references and "
              "documentHighlight must equal the recorded occurrence ranges; rename must edit exactly those ranges with the new "
              "name, and after applying the edits and re-indexing a fresh server every occurrence must resolve to the renamed "
              "declaration."),
        note=("Trusted: the builder's source map (vf/fbuild.py). documentHighlight is compared with references. Entities are "
              "variables, dummy arguments and components; procedures as rename targets are covered by the module-level shapes "
              "only indirectly."),
        design="DESIGN.md §4 C06",
    ),
    "C12": dict(
        category="exploration",
        technique="bounded-exhaustive enumeration of access variants x scopes x contexts x every prefix and case, expected label set from the generator's model",
        text=("Exhaustive enumeration over generated workspaces whose user entities share a stem no intrinsic or keyword "
              "starts with: 6 ways the using scope reaches the library module (direct USE, ONLY list, rename, through a public "
              "or default-PRIVATE intermediate module, not at all) x 3 kinds of using scope (program, module procedure with "
              "host declarations and dummy arguments, internal procedure) x up to 9 completion contexts (statement body with "
              "and without text after the cursor, CALL, USE, USE ... ONLY:, TYPE(, CLASS(, obj%, obj%component%) x every "
              "prefix from the stem to the full name of every expected entity x lower/upper case. The offered labels that "
              "start with the prefix must be exactly the accessible entities of the classes the context admits (inherited "
              "components and bindings included), and nothing offered may fail to match the prefix."),
        note=("Trusted: the expected sets in expected()/imported() of vf/checks/c12.py, written from the property text. "
              "Subroutine names in expressions, functions and objects after CALL and program-unit names are tolerated."),
        design="DESIGN.md §4 C12",
    ),
    "C05": dict(
        category="exploration",
        technique="bounded-exhaustive enumeration of generated multi-file workspaces with a reference resolver on the model and a source map; every use site queried",
        text=("Exhaustive enumeration of generated workspaces in four families: shadowing (every combination of local / dummy "
              "/ result / ASSOCIATE declarations of one name at four nesting levels of a module or program), USE graphs (2 and "
              "3 modules declaring x as {no, plain, private} with default accessibility {public, private, private + public :: "
              "x}, edges {none, use, only: x, only: y => x, only: z} between modules and from two kinds of using scope), type "
              "chains (EXTENDS length 1-3, type/class objects, scalar, array-element and nested-component access, inside and "
              "outside the module) and INCLUDE (three levels, nested). A reference resolver on the model admits a workspace "
              "only if every use site has exactly one accessible declaration; textDocument/definition at every use site must "
              "return that declaration's file and identifier range."),
        note=("Trusted: the reference resolver resolve_modules() in vf/checks/c05.py (a violating workspace that gfortran "
              "rejects aborts the check as broken). Cyclic USE graphs and more than 3 modules are not generated."),
        design="DESIGN.md §4 C05",
    ),
    "C04": dict(
        category="exploration",
        technique="bounded-exhaustive enumeration of structure trees x END forms x spacing styles against the renderer's source map; all substring queries for workspace/symbol",
        text=("Exhaustive enumeration of structure trees up to a node budget — modules with derived types (components, "
              "bindings), named generic and abstract interfaces and module procedures; submodules; programs and external "
              "procedures with internal procedures (CONTAINS) and executable constructs (BLOCK, DO plain/named/labelled, IF, "
              "SELECT CASE, ASSOCIATE, WHERE, nested) — each rendered with 5 END forms x 3 spacing styles. The renderer "
              "records the line of every opening and END statement, which gives the expected outline (exactly once, kind, "
              "container, start and end line, type members under their type); workspace/symbol is asked for every substring "
              "of length <= 3 of every name in lower/upper/mixed case plus '' and a non-matching query and must return exactly "
              "the matching top-level units and module members, sorted."),
        note=("Trusted: the renderer of vf/checks/c04.py (a sample of its output is valid per gfortran). Entries the statement "
              "neither demands nor forbids (internal '#' names, members of programs, interface bodies, named constructs) are "
              "ignored. Bounds: <=3 nodes in all 15 renderings + 4 nodes in one rendering each (quick); <=4 / 5 (thorough)."),
        design="DESIGN.md §4 C04",
    ),
    "C14": dict(
        category="exploration",
        technique="bounded-exhaustive enumeration of program x fixed-form rendering (comment characters, continuation markers, labels at every place) against the free-form twin through an exact token map; classification of every free-form layout",
        text=("Exhaustive enumeration of (program, rendering): seven canonical programs (incl. statement labels, labelled DO "
              "with CONTINUE, shared label and labelled last statement) rendered in fixed form with a comment line using each "
              "of C c * ! d D in every line gap, a continuation at every token boundary with each marker & 1 + $ (also with a "
              "comment line in between), labels in columns 1-5, upper/lower case, CRLF and trailing blanks; every rendering "
              "must be classified fixed and give the same token-keyed battery (symbols, diagnostics, definition targets, "
              "references, hover) as the free-form rendering. Every free-form layout of C13, the same layouts without "
              "indentation and three programs without typed declarations must be classified free."),
        note=("Trusted: vf/layout.py renderer (fixed renderings that differ are re-checked with gfortran and skipped if "
              "rejected; renderings exceeding column 72 are skipped). Comparison rules as in C13."),
        design="DESIGN.md §4 C14",
    ),
    "C13": dict(
        category="exploration",
        technique="bounded-exhaustive enumeration of program x re-layout (every statement, every token boundary) with an exact token position map, differential token-keyed battery oracle, gfortran as validity gate",
        text=("Exhaustive enumeration of (program, transformation): six canonical programs that together contain every "
              "statement kind x every single transformation — 2 line endings, trailing blanks, 3 letter-case modes, a "
              "blank or comment line above every statement, a trailing comment and a ';' join at every statement, an '&' "
              "continuation at every token boundary in 4 styles (plain, leading '&', comment or blank line between) — and "
              "in the thorough tier global x local pairs and pairs of local transformations; plus CRLF / trailing blanks / "
              "inserted blank or comment lines on every sample source. The layout renderer knows the position of every "
              "token, so symbols, diagnostics, definition targets, references and hover of the transformed text are compared "
              "with the original exactly (lines shift by the number inserted above; case folded for case changes)."),
        note=("Trusted: vf/layout.py (tokeniser/renderer; canonical rendering reproduces the source; transformed programs that "
              "differ are re-checked with gfortran -std=f2008 and skipped if rejected). Completion and signature help are "
              "typing aids whose context legitimately depends on the layout and are not compared. Definition targets are "
              "compared as entities (statement), references at token precision."),
        design="DESIGN.md §4 C13",
    ),
    "C15": dict(
        category="model_checking",
        technique="exhaustive schedule enumeration (file enumeration orders, worker counts, hash seeds on the real executable) plus BFS over the open-order lattice with heap-canonical states, differential battery oracle",
        text=("Schedules: every permutation of the order in which start-up enumerates the source files (subsuming directory "
              "listing order and set iteration order), worker counts 1,2,3,4,8,16 with the real pool and the synchronous "
              "stand-in, and the real executable under several PYTHONHASHSEED x --nthreads values; plus explicit-state BFS "
              "over the lattice of created-and-opened file subsets from a server started on an empty directory, all subsets "
              "through all orders, merged on the heap canon. On five workspaces with cross-file USE, EXTENDS/deferred "
              "bindings, module/submodule/sub-submodule, generic interfaces with nested INCLUDE and a header in another "
              "directory (and a duplicate-header workspace for the hash seed) the query battery must be identical "
              "everywhere and equal to the reference start-up."),
        note=("Trusted: vf/battery.py normalisation, vf/canon.py. Workspaces have 3-4 source files, so all n! orders and 2^n "
              "subsets are covered; larger workspaces are not. The stand-in pool pickles arguments and results like the real "
              "one."),
        design="DESIGN.md §4 C15",
    ),
    "C10": dict(
        category="model_checking",
        technique="explicit-state BFS over sync-event histories on a real directory and server, heap-canonical state identity, differential oracle against a freshly started server",
        text=("Explicit-state exploration of the long-lived index under document-sync events: every history of open / "
              "change / save / close / create / delete / query events up to the depth bound on four workspaces (types, "
              "procedures and generics, inheritance and submodules, preprocessor and INCLUDE) is replayed through the real "
              "notification handlers on a fresh real server and directory; states are merged on the heap canon of the "
              "server plus disk contents, buffers and dirty flags; at every quiescent state the full query battery of the "
              "long-lived server must equal that of a freshly started server on the same files (no hand-written "
              "expectations)."),
        note=("Trusted: vf/canon.py (state identity), vf/battery.py (normalisation), the 30-line disk/buffer model that "
              "decides enabledness and quiescence. Both servers use the real worker pool. Bounds: depth 5 (quick) / 6 "
              "(thorough); file changes the server is never told about are outside the model."),
        design="DESIGN.md §4 C10",
    ),
    "C20": dict(
        category="exploration",
        technique="exhaustive enumeration of a cycle catalogue (shape x length x placement) with every positional request at every identifier, under a watchdog",
        text=("Exhaustive enumeration of the cycle catalogue: 20 cyclic/self-referential shapes (USE, USE with renames, "
              "EXTENDS in one and several modules, submodule ancestry with both parent syntaxes, pointer initialisation, "
              "ASSOCIATE flat and nested, type-bound procedure links, procedure pointers, generic interfaces/bindings, "
              "Fortran INCLUDE, #include, macro references, SELECT TYPE bindings, recursive components, dummy procedures of "
              "their own interface, result names, self-USE) x cycle length 1..4 (thorough 1..6) x placement (one file / unit "
              "per file). Each workspace is indexed at start-up by a fresh real server, every file is opened and saved, and "
              "all nine positional requests are issued at every identifier and after every '%' plus documentSymbol and "
              "workspace/symbol; every answer must be a well-formed result within the time budget; a watchdog turns "
              "non-termination into a violation."),
        note=("Trusted: shape validators (vf/shapes.py), watchdog budgets (5 s per request, 120 s per workspace). Cycle "
              "shapes outside the catalogue are not covered."),
        design="DESIGN.md §4 C20",
    ),
    "C09": dict(
        category="exploration",
        technique="bounded-exhaustive enumeration of document x position x method on a live server, with shape validators and range-in-document checks",
        text=("Exhaustive enumeration of (document, position, method): every sample source of the repository indexed as one "
              "workspace, every token start/interior/end, one past every line end and past the end of file (thorough: every "
              "column of every line) x the nine positional methods, the same on line-deleted / half-line / truncated mutants, "
              "and every bundled intrinsic procedure, statement, keyword, module and module member name under the cursor in "
              "five contexts. Every response must be a result of the prescribed shape (or null), and every range in it — and "
              "in every publishDiagnostics emitted on open — must lie inside its target document."),
        note=("Trusted: the hand-written shape validators in vf/shapes.py and the range check against the text the server "
              "holds for the target. Documents outside the corpus and its single-line mutants are not covered."),
        design="DESIGN.md §4 C09",
    ),
    "C19": dict(
        category="fault_enumeration",
        technique="exhaustive enumeration of option x channel states, all ordered option pairs and a catalogue of faulty configuration files (incl. injected read errors) on the real initialize",
        text=("For each of the 26 file-loadable options the six channel states {default, CLI v1, file v1, file v2, CLI v1 + "
              "file v2, CLI v1 + empty file}, all 650 ordered pairs (option A on the command line, option B in the file), "
              "and every faulty file of the catalogue (10 syntactically/structurally invalid files, every wrong JSON type "
              "for every option, injected PermissionError, directory in place of the file, explicit --config that does not "
              "exist) are run through the real initialize. The observation is the effective option vector when indexing "
              "starts plus a behaviour vector (capabilities, messages, indexed files, hover, completion, signature, "
              "diagnostics, symbols); refopts relations must hold between the runs and initialization must complete."),
        note=("Trusted: the refopts relations in vf/checks/c19.py. One value pair per option; store_true options can only "
              "be switched on from the command line; an unreadable file is simulated by fault injection on open()."),
        design="DESIGN.md §4 C19",
    ),
    "C18": dict(
        category="exploration",
        technique="bounded-exhaustive enumeration of the full settings product x channel on look-alike directory trees against a reference file scanner",
        text=("Exhaustive enumeration of the full product source_dirs(8) x excl_paths(7) x incl_suffixes(4) x "
              "excl_suffixes(3) x {command line, configuration file} on directory trees containing every look-alike "
              "(upper/lower-case suffixes, .f9, .f90.bak, backup~, a directory named like a source file, hidden and empty "
              "directories, nested exclusion targets); the real initialize runs on each and the set of indexed files must "
              "equal the set computed by refscan from the property text, and workspace/symbol must list exactly the "
              "modules of those files."),
        note=("Trusted: refscan (stdlib glob/os.walk, 30 lines in vf/checks/c18.py). Where the statement does not fix "
              "whether wildcards match hidden entries both readings are accepted. Three fixed trees (one in quick)."),
        design="DESIGN.md §4 C18",
    ),
    "C17": dict(
        category="exploration",
        technique="bounded-exhaustive enumeration of payload x injection site x path on the real server under an interpreter audit-hook monitor and a file-system oracle",
        text=("Exhaustive enumeration of adversarial workspaces — 13 host-language payloads carrying a marker x 22 injection "
              "sites (#if/#elif text, macro bodies reaching #if directly, through headers, configuration, command line, "
              "multi-line and function-like macros, lower-case pp suffix, INCLUDE, strings, directive names, configuration "
              "strings) x 4 paths (start-up, didOpen, didChange, didSave) each followed by positional requests on every "
              "line — executed on the real server under a PEP 578 audit hook. Monitor: no compile/exec of marker text, no "
              "process/socket event, no write-type file event outside the debug log; plus a tree-hash oracle of the "
              "workspace and a canary directory. A slice also runs through the real executable (real worker pool)."),
        note=("Trusted: CPython's audit events (compile, exec, open, os.*, subprocess.Popen, socket.connect) are raised for "
              "every such action in the harness process; parsing is forced into that process by the synchronous pool "
              "stand-in. Payload/site catalogue is finite; contents outside it are not covered."),
        design="DESIGN.md §4 C17",
    ),
    "C03": dict(
        category="exploration",
        technique="bounded-exhaustive enumeration of fragment strings, all prefixes and all single mutations of the corpus through the real indexing path, with a hard watchdog",
        text=("Bounded-exhaustive enumeration: every sequence of <=2 (quick) / <=3 (thorough) lines over a ~130-fragment "
              "alphabet (statement openers, END forms, directives, broken lines) in 4 file kinds, every line/character prefix "
              "and every line/token-level mutation of every sample source is indexed by the real "
              "LangServer.update_workspace_file, followed by documentSymbol and the diagnostics computation on the result; "
              "any exception is a violation and a watchdog kills and reports any text that exceeds its time budget."),
        note=("Trusted: the harness resets workspace/obj_tree/pp_defs of a long-lived server between texts. Texts outside "
              "the fragment alphabet and longer than the corpus files are not covered."),
        design="DESIGN.md §4 C03",
    ),
    "C08": dict(
        category="model_checking",
        technique="enumeration of all paths of the reference preprocessor automaton up to a directive bound, each replayed on the real preprocessor/parser; reference cross-checked against GNU cpp",
        text=("The model is the refcpp automaton (conditional stack x macro table). Every directive skeleton up to the size "
              "and nesting bound x every initial definition set — i.e. every path of the model's state graph within the "
              "bound — is replayed through the real FortranFile.parse of a preprocessed file; active lines, indexed "
              "declarations and the final macro table must agree with the model on every path. A second family enumerates "
              "all macro bodies up to a length bound for object-/function-like substitution, compared character for "
              "character. refcpp itself is compared with GNU cpp on a slice of the family on every run."),
        note=("Trusted: vf/refcpp.py (cross-validated against GNU cpp; disagreement aborts the check as broken). Inputs on "
              "which the C preprocessor is undefined are excluded. Bounds: <=5/<=6 directives, nesting 2, names A,B, 21 "
              "#if expressions, 7 definition sets; macro bodies <=3/<=4 atoms."),
        design="DESIGN.md §4 C08",
    ),
    "C01": dict(
        category="model_checking",
        technique="explicit-state BFS over message histories through the real LangServer.run loop, heap-canonical state identity, refrpc oracle",
        text=("Explicit-state exploration of the protocol loop: every history of messages up to the depth bound over an "
              "alphabet of ~60 messages (lifecycle, unknown methods, sync events, every request method well-formed / "
              "parameter-malformed / on a missing file) is fed as a byte stream to the real LangServer.run() on a fresh "
              "server; states are merged on a heap canon of server+connection that is finer than anything a handler can "
              "read; every transition's output is judged by the reference response model (exactly one response per "
              "request with its id, result xor error, error code by cause, silence for notifications, arrival order, "
              "parsable frames, loop alive until exit)."),
        note=("Trusted: vf/canon.py (state identity), the independent frame reader, the refrpc rules in judge(). "
              "multiprocessing.Pool is replaced by a synchronous stand-in in-process; a slice of reached histories is "
              "replayed through the real `python -m fortls` and must give the same transcript. Bounds: depth 4 (quick) / 5 "
              "(thorough); JSON-RPC batches and client responses are not generated."),
        design="DESIGN.md §4 C01",
    ),
    "C16": dict(
        category="exploration",
        technique="bounded-exhaustive enumeration of payloads x header layouts x chunk schedules on the real run() loop, independent framer",
        text=("Bounded-exhaustive enumeration: every string up to a length bound over one character per encoding class is "
              "written through the real write_response/write_error/send_notification and recovered by an independent "
              "reader; message streams from an independent writer (3 header layouts, raw and escaped bodies) are fed to the "
              "real LangServer.run() through a scripted raw stream under every single cut, every pair of cuts and "
              "byte-by-byte delivery, and the handler must see exactly the messages sent; every path up to a segment bound "
              "over a path-character alphabet must round-trip through path_to_uri/path_from_uri and client spellings."),
        note=("Trusted: the independent framer in vf/driver.py and Python's json/urllib. Unicode is represented by one "
              "character per UTF-8/UTF-16 encoding class; cut schedules are bounded at 2 cuts (3 on one stream in the "
              "thorough tier) plus per-byte delivery; POSIX paths only."),
        design="DESIGN.md §4 C16",
    ),
    "C02": dict(
        category="model_checking",
        technique="explicit-state BFS over edit histories on the real apply_change/didChange, string reference model",
        text=("Explicit-state exploration: every content change (all start<=end ranges over all valid positions x an "
              "alphabet of inserted texts incl. LF/CRLF/CR endings, plus whole-document changes) from every reachable "
              "client text up to the depth bound is executed on the real FortranFile.apply_change and through real "
              "didChange notifications; after every transition the server's line list must equal the reference string "
              "model. States and transitions are counted; the run is exhaustive within the bound."),
        note=("Trusted: the 40-line string model vf/refdoc.py (LSP line breaks, UTF-16 columns). Assumes the file on disk "
              "equals the didOpen text and ranges lie inside the document. Bounds: 7 initial documents, 10 inserted "
              "texts, depth 2 (quick) / depth 2 full + depth 3 reduced alphabet (thorough)."),
        design="DESIGN.md §4 C02",
    ),
}

# Families added in rounds 15-16 (appended to the coverage text of the check)
ADDENDA = {
    "C01": " The alphabet also has members of the expected name but another JSON type (textDocument null / string / list / number, position a string) and a request whose params are nested 1500 levels deep; output is attributed to a message from the moment it starts being read.",
    "C02": " Family e2e_didopen: the document as carried by didOpen (same text on disk, no file on disk, another text on disk, re-opened) x 6 documents x ranged / whole-document sync x one change, and a notification with two whole-document changes.",
    "C04": " Family sessions: a module and a submodule with 'module procedure' implementations in two files; the interfaces arrive in / leave the parent's file while outlines are asked before or not; outlines must equal a fresh server's.",
    "C05": " Families continued_decl (declared name on a continuation line with / without the leading '&' at three indents) and host_only (a restricted inner USE of a module the host accesses freely: 3 inner scope kinds x 3 inner ONLY forms x 2 host forms x variable / type + component).",
    "C06": " Shapes across files: a procedure declared by an interface body in a module, a 'module subroutine/function' interface with its implementation in a submodule, and dummy arguments of a separate module procedure, each asked from every occurrence in every file.",
    "C07": " Family interface_import: a host type named in an interface body of an unnamed / abstract / named generic interface block x module / program host x 5 IMPORT forms x TYPE / CLASS.",
    "C08": " Families directive_forms (all sequences of <= 4/5 directives over redefinition without #undef and backslash-continued #define / #undef / #if / #elif), include_paths (8 spellings of header paths with directories x 3 writings x 3 regions, singly and in pairs) and redefinition inside headers; all cross-checked with GNU cpp.",
    "C09": " The text edits and diagnostics of code actions are range-checked too; families code_actions (deferred binding unimplemented, module tail inline or from an INCLUDE file with 0-12 leading lines) and diag_statement (parse-time diagnostics of statements continued over two lines, LF / CRLF).",
    "C10": " Workspaces W11-W13 (type-bound procedure whose implementation is renamed in another file; user module shadowing an intrinsic module; implementation of a module-procedure interface removed from the submodule); the battery also asks textDocument/implementation.",
    "C11": " Families procedure_forms (prefixes PURE / ELEMENTAL / RECURSIVE / IMPURE x typed FUNCTION statements x RESULT x dummies declared out of order or jointly x documentation before / after / trailing), type_statements (attribute sets of TYPE statements) and edge_docs (documentation ending the file, documentation inside inactive preprocessor branches).",
    "C12": " Also a constructs program (BLOCK locals, ASSOCIATE names, depth-3 member chains, array-element chains, blanks around '%', DO / IF / PRINT statements) and nested_only: all sequences of <= 3 requests over three procedures of a host that name one module with different ONLY lists.",
    "C13": " Family session_layout: every corpus program re-laid-out on disk at its edges (blank / comment lines before the first or after the last statement, no final break, CRLF) while the server holds it x didSave / didOpen / didOpen+didClose, outline compared with a fresh server's.",
    "C14": " Further fixed-form renderings: a zero in column 6 of initial lines, continuation text glued to the mark (also on the first line of the file), trailing '!' comments naming the statement's entities on plain and on continued lines (one and two continuation breaks).",
    "C15": " Workspace WJ_macro_in_one_file: a macro defined by one preprocessed file and tested (#ifdef) by another that does not define it.",
    "C16": " Header spellings 'content-length: N', 'Content-Length:N' and 'CONTENT-LENGTH:  N' after Content-Type are part of the reader family.",
    "C17": " Payloads with shell syntax ($(...), back-ticks, ${X:-...}) at the configured path options of file and command line; the debug log's path occupied by a symbolic link to a file outside the workspace.",
    "C18": " The tree has directory names that are not their own glob pattern (run[1] next to run1); family root_naming (root named pr[1] / pr? / p*r with decoy siblings, root reached through a symbolic link) x a reduced settings product; excl_paths '.' and the root's absolute path.",
    "C19": " Faults too_deep / too_deep_value (valid JSON nested beyond the reader), every syntactic fault under each default file name (the message must name the file read), pp_defs given as list / number / string on both channels.",
}

NOT_YET = "check not built yet in this revision of /verif (planned, see DESIGN.md §4)"


def main():
    checks = []
    for pid in ALL:
        c = CHECKS.get(pid)
        if not c:
            continue
        checks.append({
            "property_id": pid,
            "quick_cmd": f"./run {pid} --tier quick",
            "thorough_cmd": f"./run {pid} --tier thorough",
            "evidence_file": f"/verif/evidence/{pid}.json",
            "replay_cmd_template": f"./run {pid} --replay {{path}}",
            "engine": "vf",
            "level_claimed": {"category": c["category"], "text": c["text"] + ADDENDA.get(pid, ""), "design_ref": c["design"]},
            "level_note": c["note"],
            "technique": c["technique"],
        })
    man = {
        "version": 1,
        "setup_cmd": "sh tools/setup.sh",
        "hooks": {
            "guard": "FORTLS_VERIF",
            "enable": "none needed: every seam is reached from outside (module/object attribute substitution, audit hooks); "
                      "checks import fortls from /repo's working tree",
            "baseline_off_cmd": "cd /repo && /venv/bin/python -m pytest -ra -q -p no:cacheprovider --timeout=900 "
                                "--continue-on-collection-errors",
            "source_commits": [],
            "add_only": True,
        },
        "engines": [{
            "name": "vf",
            "path": "/verif/vf",
            "serves_properties": sorted(CHECKS),
            "kind_free_text": "hand-written explicit-state explorer (BFS over event histories on the real handlers, "
                              "heap-canonical state identity) and bounded-exhaustive enumerator with watchdog, in Python",
        }],
        "checks": checks,
        "notes": "All checks run the real fortls code from /repo's working tree under /venv/bin/python. "
                 "known_findings.json lists genuine defects (open / fixed).",
        "not_applicable": [{"property_id": p, "reason": NOT_YET} for p in ALL if p not in CHECKS],
    }
    with open(os.path.join(VERIF, "MANIFEST.json"), "w") as f:
        json.dump(man, f, indent=1)
    print(f"MANIFEST.json: {len(checks)} checks, {len(man['not_applicable'])} not_applicable")


if __name__ == "__main__":
    main()
