#!/bin/sh
# Run the repository's pinned suite in directory $1 (default /repo) and print
# "passed=<n> failed=<n>"; exit 0 iff nothing failed.  The PyPI test needs network.
D=${1:-/repo}
X=$(mktemp /dev/shm/junit.XXXXXX.xml)
# test_server_init indexes the whole temporary directory: give the suite a private, empty one
T=$(mktemp -d /dev/shm/suite_tmp.XXXXXX)
cd "$D" || exit 2
TMPDIR="$T" PYTHONPATH="$D" /venv/bin/python -m pytest -q -p no:cacheprovider --timeout=900 \
  --continue-on-collection-errors --no-cov \
  --deselect test/test_interface.py::test_version_update_pypi --junitxml="$X" >/dev/null 2>&1
python3 - "$X" <<'PY'
import sys, xml.etree.ElementTree as ET
r = ET.parse(sys.argv[1]).getroot()
ts = r if r.tag == "testsuite" else r.find("testsuite")
t, f, e, s = (int(ts.get(k, 0)) for k in ("tests", "failures", "errors", "skipped"))
print(f"passed={t-f-e-s} failed={f} errors={e} skipped={s}")
bad = [c.get("classname") + "::" + c.get("name") for c in ts.iter("testcase") if c.find("failure") is not None or c.find("error") is not None]
for b in bad: print("FAILED", b)
sys.exit(1 if (f or e) else 0)
PY
rc=$?
rm -rf "$X" "$T"
exit $rc
