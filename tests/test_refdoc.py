import unittest

from vf import refdoc


class RefDoc(unittest.TestCase):
    def test_split(self):
        self.assertEqual(refdoc.split_lines("a\r\nb\rc\nd"), ["a", "b", "c", "d"])
        self.assertEqual(refdoc.split_lines("a\n"), ["a", ""])
        self.assertEqual(refdoc.split_lines(""), [""])

    def test_apply(self):
        ch = {"range": {"start": {"line": 0, "character": 1}, "end": {"line": 1, "character": 1}}, "text": "X\n"}
        self.assertEqual(refdoc.apply("ab\ncd", ch), "aX\nd")
        self.assertEqual(refdoc.apply("ab\ncd", {"text": "z"}), "z")

    def test_utf16(self):
        t = "\U0001F600x"
        ch = {"range": {"start": {"line": 0, "character": 2}, "end": {"line": 0, "character": 3}}, "text": ""}
        self.assertEqual(refdoc.apply(t, ch), "\U0001F600")

    def test_positions(self):
        self.assertEqual(refdoc.positions("ab\n"), [(0, 0), (0, 1), (0, 2), (1, 0)])

    def test_seam(self):
        ch = {"range": {"start": {"line": 0, "character": 2}, "end": {"line": 0, "character": 2}}, "text": "\r"}
        self.assertTrue(refdoc.seam_crlf("ab\ncd", ch))
        self.assertFalse(refdoc.seam_crlf("ab\ncd", {**ch, "text": "\n"}))
