import os
import subprocess
import tempfile
import unittest

from vf import layout, programs


def gfortran_ok(text, fixed=False):
    with tempfile.TemporaryDirectory(dir="/dev/shm") as d:
        p = os.path.join(d, "p.f" if fixed else "p.f90")
        with open(p, "w", newline="") as f:
            f.write(text)
        r = subprocess.run(["gfortran", "-fsyntax-only", "-std=f2008", "-J", d, p], capture_output=True, text=True)
        return r.returncode == 0, r.stderr[-600:]


class Programs(unittest.TestCase):
    def test_canonical_programs_are_valid_fortran(self):
        for n, src in programs.PROGRAMS.items():
            ok, err = gfortran_ok(src)
            self.assertTrue(ok, f"{n}: {err}")

    def test_render_identity(self):
        for n, src in programs.PROGRAMS.items():
            st = layout.parse_program(src)
            r = layout.render(st)
            self.assertEqual(r.text.rstrip("\n"), src.rstrip("\n"), n)

    def test_layouts_still_valid(self):
        src = programs.PROGRAMS["procs"]
        st = layout.parse_program(src)
        code = [i for i, s in enumerate(st) if s.kind == "code" and len(s.toks) > 3]
        lay = layout.Layout(split={code[3]: [(2, "lead_amp")], code[5]: [(1, "comment_between")]}, blank_above={2: 1},
                            comment_above={4: 2}, trailing_comment={code[1]}, case="upper")
        ok, err = gfortran_ok(layout.render(st, lay).text)
        self.assertTrue(ok, err)
        fx = layout.Layout(fixed=True, split={code[3]: [(2, "plain")]}, comment_above={4: 1})
        ok, err = gfortran_ok(layout.render(st, fx).text, fixed=True)
        self.assertTrue(ok, err)
